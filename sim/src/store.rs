//! `MemStore`: the simulated durable storage under an archive. A tree of directories
//! and byte files with local-filesystem semantics. Everything that survives a crash
//! lives here and nowhere else.

use std::collections::BTreeMap;

use bytes::Bytes;
use conserve::Kind;
use conserve::transport::verif::{Op, Reply};
use conserve::transport::{DirEntry, Error as TErr, ErrorKind, Metadata, WriteMode};

use crate::rng::{self, Rng};

#[derive(Debug, Clone, PartialEq, Eq)]
pub enum Node {
    Dir,
    File(Bytes),
}

#[derive(Debug, Clone, Copy, PartialEq, Eq, serde::Serialize, serde::Deserialize)]
pub enum ListOrder {
    Sorted,
    Reversed,
    Shuffled(u64),
}

/// Keys are paths relative to the archive root, without leading or trailing slash;
/// the root directory itself is the empty string.
#[derive(Debug, Clone)]
pub struct MemStore {
    pub nodes: BTreeMap<String, Node>,
    pub list_order: ListOrder,
    /// Number of list operations served so far (feeds the shuffle so two listings of
    /// one directory may come back in different orders, as on a real file system).
    pub lists_served: u64,
}

pub fn terr(kind: ErrorKind) -> TErr {
    TErr {
        kind,
        source: None,
        url: None,
    }
}

pub fn parent(p: &str) -> &str {
    p.rfind('/').map(|i| &p[..i]).unwrap_or("")
}

pub fn op_path(op: &Op) -> &str {
    match op {
        Op::Read { path }
        | Op::Write { path, .. }
        | Op::ListDir { path }
        | Op::CreateDir { path }
        | Op::Metadata { path }
        | Op::RemoveFile { path }
        | Op::RemoveDirAll { path } => path,
    }
}

pub fn op_verb(op: &Op) -> &'static str {
    match op {
        Op::Read { .. } => "read",
        Op::Write { .. } => "write",
        Op::ListDir { .. } => "list",
        Op::CreateDir { .. } => "mkdir",
        Op::Metadata { .. } => "stat",
        Op::RemoveFile { .. } => "rm",
        Op::RemoveDirAll { .. } => "rmtree",
    }
}

pub fn op_is_mutating(op: &Op) -> bool {
    matches!(
        op,
        Op::Write { .. } | Op::CreateDir { .. } | Op::RemoveFile { .. } | Op::RemoveDirAll { .. }
    )
}

impl MemStore {
    pub fn new(list_order: ListOrder) -> MemStore {
        let mut nodes = BTreeMap::new();
        nodes.insert(String::new(), Node::Dir);
        MemStore {
            nodes,
            list_order,
            lists_served: 0,
        }
    }

    pub fn file(&self, path: &str) -> Option<&Bytes> {
        match self.nodes.get(path) {
            Some(Node::File(b)) => Some(b),
            _ => None,
        }
    }

    pub fn is_dir(&self, path: &str) -> bool {
        matches!(self.nodes.get(path), Some(Node::Dir))
    }

    /// All file paths, sorted.
    pub fn files(&self) -> impl Iterator<Item = (&String, &Bytes)> {
        self.nodes.iter().filter_map(|(k, v)| match v {
            Node::File(b) => Some((k, b)),
            Node::Dir => None,
        })
    }

    /// Names directly inside a directory (sorted), or None if it is not a directory.
    pub fn children(&self, path: &str) -> Option<Vec<(String, &Node)>> {
        if !self.is_dir(path) {
            return None;
        }
        let prefix = if path.is_empty() {
            String::new()
        } else {
            format!("{path}/")
        };
        let mut out = Vec::new();
        for (k, v) in self.nodes.range(prefix.clone()..) {
            if !k.starts_with(&prefix) {
                break;
            }
            if k.is_empty() {
                continue;
            }
            let rest = &k[prefix.len()..];
            if rest.is_empty() || rest.contains('/') {
                continue;
            }
            out.push((rest.to_string(), v));
        }
        Some(out)
    }

    /// Write a file directly (harness-side state injection and damage), creating parents.
    pub fn put_file(&mut self, path: &str, content: impl Into<Bytes>) {
        let mut p = parent(path).to_string();
        let mut missing = Vec::new();
        while !self.nodes.contains_key(&p) {
            missing.push(p.clone());
            p = parent(&p).to_string();
        }
        for m in missing {
            self.nodes.insert(m, Node::Dir);
        }
        self.nodes.insert(path.to_string(), Node::File(content.into()));
    }

    pub fn put_dir(&mut self, path: &str) {
        let mut p = path.to_string();
        while !self.nodes.contains_key(&p) {
            self.nodes.insert(p.clone(), Node::Dir);
            p = parent(&p).to_string();
        }
    }

    pub fn remove_tree(&mut self, path: &str) {
        let prefix = format!("{path}/");
        let keys: Vec<String> = self
            .nodes
            .keys()
            .filter(|k| *k == path || k.starts_with(&prefix))
            .cloned()
            .collect();
        for k in keys {
            self.nodes.remove(&k);
        }
    }

    /// Apply one storage operation atomically.
    pub fn apply(&mut self, op: &Op) -> Result<Reply, TErr> {
        match op {
            Op::Read { path } => match self.nodes.get(path) {
                Some(Node::File(b)) => Ok(Reply::Bytes(b.clone())),
                Some(Node::Dir) => Err(terr(ErrorKind::Other)),
                None => Err(terr(ErrorKind::NotFound)),
            },
            Op::Write {
                path,
                content,
                mode,
            } => {
                if path.is_empty() || !self.is_dir(parent(path)) {
                    return Err(terr(ErrorKind::NotFound));
                }
                match self.nodes.get(path) {
                    Some(Node::Dir) => return Err(terr(ErrorKind::Other)),
                    // A zero-length leftover of a killed write may be completed: this is the
                    // one documented exception to write-once, and Conserve relies on it
                    // (blockdir test empty_block_file_counts_as_not_present).
                    Some(Node::File(b)) if *mode == WriteMode::CreateNew && !b.is_empty() => {
                        return Err(terr(ErrorKind::AlreadyExists));
                    }
                    _ => {}
                }
                self.nodes.insert(path.clone(), Node::File(content.clone()));
                Ok(Reply::Unit)
            }
            Op::ListDir { path } => {
                let Some(children) = self.children(path) else {
                    return Err(terr(if self.nodes.contains_key(path) {
                        ErrorKind::Other
                    } else {
                        ErrorKind::NotFound
                    }));
                };
                let mut out: Vec<DirEntry> = children
                    .into_iter()
                    .map(|(name, node)| match node {
                        Node::Dir => DirEntry {
                            name,
                            kind: Kind::Dir,
                            len: None,
                        },
                        Node::File(b) => DirEntry {
                            name,
                            kind: Kind::File,
                            len: Some(b.len() as u64),
                        },
                    })
                    .collect();
                self.lists_served += 1;
                match self.list_order {
                    ListOrder::Sorted => {}
                    ListOrder::Reversed => out.reverse(),
                    ListOrder::Shuffled(seed) => {
                        let mut r =
                            Rng::new(rng::mix(&[seed, rng::hash_str(path), self.lists_served]));
                        r.shuffle(&mut out);
                    }
                }
                Ok(Reply::List(out))
            }
            Op::CreateDir { path } => {
                if path.is_empty() {
                    return Ok(Reply::Unit);
                }
                if !self.is_dir(parent(path)) {
                    return Err(terr(ErrorKind::NotFound));
                }
                match self.nodes.get(path) {
                    // local.rs maps AlreadyExists to Ok whatever the existing node is.
                    Some(_) => Ok(Reply::Unit),
                    None => {
                        self.nodes.insert(path.clone(), Node::Dir);
                        Ok(Reply::Unit)
                    }
                }
            }
            Op::Metadata { path } => match self.nodes.get(path) {
                Some(Node::File(b)) => Ok(Reply::Metadata(Metadata {
                    len: b.len() as u64,
                    kind: Kind::File,
                    modified: jiff::Timestamp::UNIX_EPOCH,
                })),
                Some(Node::Dir) => Ok(Reply::Metadata(Metadata {
                    len: 0,
                    kind: Kind::Dir,
                    modified: jiff::Timestamp::UNIX_EPOCH,
                })),
                None => Err(terr(ErrorKind::NotFound)),
            },
            Op::RemoveFile { path } => match self.nodes.get(path) {
                Some(Node::File(_)) => {
                    self.nodes.remove(path);
                    Ok(Reply::Unit)
                }
                Some(Node::Dir) => Err(terr(ErrorKind::Other)),
                None => Err(terr(ErrorKind::NotFound)),
            },
            Op::RemoveDirAll { path } => {
                if path.is_empty() || !self.is_dir(path) {
                    return Err(terr(if self.nodes.contains_key(path) {
                        ErrorKind::Other
                    } else {
                        ErrorKind::NotFound
                    }));
                }
                self.remove_tree(path);
                Ok(Reply::Unit)
            }
        }
    }

    /// Hash of the whole store content, with the two wall-clock fields of band heads and
    /// tails masked. Used as the "distinct states" measure and in determinism checks.
    pub fn state_hash(&self) -> u64 {
        let mut acc: Vec<u64> = Vec::with_capacity(self.nodes.len() * 2);
        for (k, v) in &self.nodes {
            acc.push(rng::hash_str(k));
            match v {
                Node::Dir => acc.push(1),
                Node::File(b) => {
                    if k.ends_with("BANDHEAD") || k.ends_with("BANDTAIL") {
                        acc.push(rng::hash_bytes(&mask_times(b)));
                    } else {
                        acc.push(rng::hash_bytes(b));
                    }
                }
            }
        }
        rng::mix(&acc)
    }
}

/// BANDHEAD / BANDTAIL content with start_time / end_time removed (the only wall-clock
/// dependent bytes Conserve writes). Non-JSON content is returned unchanged.
pub fn mask_times(b: &[u8]) -> Vec<u8> {
    match serde_json::from_slice::<serde_json::Value>(b) {
        Ok(serde_json::Value::Object(mut m)) => {
            m.remove("start_time");
            m.remove("end_time");
            serde_json::to_vec(&serde_json::Value::Object(m)).unwrap()
        }
        _ => b.to_vec(),
    }
}
