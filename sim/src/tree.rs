//! The source-tree reference model, its materialisation on a real (tmpfs) directory, and
//! the harness's own lstat walker. The walker, not Conserve, says what a directory holds.

use std::collections::BTreeMap;
use std::os::unix::fs::{MetadataExt, PermissionsExt};
use std::path::{Path, PathBuf};
use std::sync::Arc;

use serde::{Deserialize, Serialize};

use crate::rng;

#[derive(Clone, Debug, PartialEq, Eq, Serialize, Deserialize)]
pub enum NodeKind {
    /// `period` > 0: the content repeats every `period` bytes (so that blocks repeat inside
    /// one file and the tail of one file can equal the whole of another).
    File {
        size: usize,
        cseed: u64,
        #[serde(default, skip_serializing_if = "is_zero")]
        period: usize,
    },
    Dir,
    Symlink { target: String },
}

fn is_zero(n: &usize) -> bool {
    *n == 0
}

/// The bytes of a generated file.
pub fn file_bytes(cseed: u64, size: usize, period: usize) -> Vec<u8> {
    if cseed == 0 {
        // content seed 0: a file of zero bytes (sparse files, "holes")
        return vec![0u8; size];
    }
    if period == 0 || size <= period {
        return rng::content(cseed, size);
    }
    let unit = rng::content(cseed, period);
    unit.iter().copied().cycle().take(size).collect()
}

#[derive(Clone, Copy, Debug, PartialEq, Eq, Serialize, Deserialize)]
pub struct Meta {
    /// 12 permission bits.
    pub mode: u32,
    /// (floor seconds, nanoseconds 0..1e9): the value `lstat` reports.
    pub mtime: (i64, u32),
    pub uid: u32,
    pub gid: u32,
}

#[derive(Clone, Debug, PartialEq, Eq, Serialize, Deserialize)]
pub struct TNode {
    pub kind: NodeKind,
    pub meta: Meta,
}

/// One explicit, replayable change to the source tree.
#[derive(Clone, Debug, PartialEq, Eq, Serialize, Deserialize)]
pub enum EditOp {
    /// Create or replace the node at `path`. Replacing a directory by a directory keeps the
    /// children; any other replacement removes what was there (with its subtree).
    Put { path: String, node: TNode },
    Remove { path: String },
    Rename { from: String, to: String },
    SetMeta {
        path: String,
        mode: Option<u32>,
        mtime: Option<(i64, u32)>,
        owner: Option<(u32, u32)>,
    },
    /// `count` empty files `<dir>/<prefix>NNNNN` with the same metadata (for indexes with
    /// more hunks than fit in one index subdirectory).
    BulkEmptyFiles { dir: String, prefix: String, count: u32, meta: Meta },
    /// Directory entries whose names are NOT valid UTF-8 (raw bytes). Conserve skips such
    /// names (it logs them), so they are not part of the model; `kind` is 0 for dangling
    /// symlinks, 1 for empty files, 2 for empty directories.
    RawNames { dir: String, names: Vec<Vec<u8>>, kind: u8 },
}

impl EditOp {
    pub fn path(&self) -> &str {
        match self {
            EditOp::Put { path, .. } | EditOp::Remove { path } | EditOp::SetMeta { path, .. } => {
                path
            }
            EditOp::BulkEmptyFiles { dir, .. } => dir,
            EditOp::RawNames { dir, .. } => dir,
            EditOp::Rename { from, .. } => from,
        }
    }
}

/// apath ("/", "/a", "/a/b") -> node. The root is always present and a directory.
#[derive(Clone, Debug, PartialEq, Eq)]
pub struct TreeModel {
    pub nodes: BTreeMap<String, TNode>,
}

pub fn parent_apath(p: &str) -> &str {
    match p.rfind('/') {
        Some(0) | None => "/",
        Some(i) => &p[..i],
    }
}

pub fn join_apath(dir: &str, name: &str) -> String {
    if dir == "/" {
        format!("/{name}")
    } else {
        format!("{dir}/{name}")
    }
}

pub fn is_under(p: &str, dir: &str) -> bool {
    dir == "/" || p == dir || (p.starts_with(dir) && p.as_bytes().get(dir.len()) == Some(&b'/'))
}

impl TreeModel {
    pub fn new(root_meta: Meta) -> TreeModel {
        let mut nodes = BTreeMap::new();
        nodes.insert(
            "/".to_string(),
            TNode {
                kind: NodeKind::Dir,
                meta: root_meta,
            },
        );
        TreeModel { nodes }
    }

    pub fn is_dir(&self, p: &str) -> bool {
        matches!(self.nodes.get(p), Some(TNode { kind: NodeKind::Dir, .. }))
    }

    pub fn dirs(&self) -> Vec<String> {
        self.nodes
            .iter()
            .filter(|(_, n)| n.kind == NodeKind::Dir)
            .map(|(k, _)| k.clone())
            .collect()
    }

    pub fn subtree_keys(&self, p: &str) -> Vec<String> {
        self.nodes
            .keys()
            .filter(|k| is_under(k, p))
            .cloned()
            .collect()
    }

    /// Apply to the model only. Returns false (and changes nothing) if the edit is not
    /// applicable (missing parent, unknown path ...): generators and minimisers may produce
    /// such edits and they are simply skipped, identically in model and on disk.
    pub fn apply(&mut self, e: &EditOp) -> bool {
        match e {
            EditOp::Put { path, node } => {
                if path == "/" {
                    return false;
                }
                if !self.is_dir(parent_apath(path)) {
                    return false;
                }
                let keep_children = node.kind == NodeKind::Dir && self.is_dir(path);
                if !keep_children {
                    for k in self.subtree_keys(path) {
                        self.nodes.remove(&k);
                    }
                }
                self.nodes.insert(path.clone(), node.clone());
                true
            }
            EditOp::Remove { path } => {
                if path == "/" || !self.nodes.contains_key(path) {
                    return false;
                }
                for k in self.subtree_keys(path) {
                    self.nodes.remove(&k);
                }
                true
            }
            EditOp::Rename { from, to } => {
                if from == "/"
                    || to == "/"
                    || !self.nodes.contains_key(from)
                    || self.nodes.contains_key(to)
                    || !self.is_dir(parent_apath(to))
                    || is_under(to, from)
                {
                    return false;
                }
                for k in self.subtree_keys(from) {
                    let n = self.nodes.remove(&k).unwrap();
                    let nk = format!("{to}{}", &k[from.len()..]);
                    self.nodes.insert(nk, n);
                }
                true
            }
            EditOp::RawNames { dir, names, .. } => {
                self.is_dir(dir) && names.iter().all(|n| std::str::from_utf8(n).is_err() && !n.contains(&b'/') && !n.contains(&0))
            }
            EditOp::BulkEmptyFiles { dir, prefix, count, meta } => {
                if !self.is_dir(dir) {
                    return false;
                }
                for i in 0..*count {
                    let p = join_apath(dir, &format!("{prefix}{i:05}"));
                    if self.nodes.contains_key(&p) {
                        continue;
                    }
                    self.nodes.insert(p, TNode { kind: NodeKind::File { size: 0, cseed: 0, period: 0 }, meta: *meta });
                }
                true
            }
            EditOp::SetMeta {
                path,
                mode,
                mtime,
                owner,
            } => {
                let Some(n) = self.nodes.get_mut(path) else {
                    return false;
                };
                if let Some(m) = mode {
                    if !matches!(n.kind, NodeKind::Symlink { .. }) {
                        n.meta.mode = *m;
                    }
                }
                if let Some(t) = mtime {
                    n.meta.mtime = *t;
                }
                if let Some((u, g)) = owner {
                    n.meta.uid = *u;
                    n.meta.gid = *g;
                }
                true
            }
        }
    }
}

// ---------------------------------------------------------------------------------------
// Snapshots: what a walker saw

#[derive(Clone, Debug, PartialEq, Eq)]
pub struct SNode {
    /// 'f', 'd', 'l', or '?' for anything else
    pub kind: char,
    pub data: Arc<Vec<u8>>,
    pub target: String,
    pub mode: u32,
    pub mtime: (i64, u32),
    pub uid: u32,
    pub gid: u32,
}

pub type Snap = BTreeMap<String, SNode>;

fn disk_path(root: &Path, apath: &str) -> PathBuf {
    if apath == "/" {
        root.to_owned()
    } else {
        root.join(&apath[1..])
    }
}

pub fn stat_node(p: &Path) -> std::io::Result<SNode> {
    let md = std::fs::symlink_metadata(p)?;
    let ft = md.file_type();
    let (kind, data, target) = if ft.is_file() {
        ('f', std::fs::read(p)?, String::new())
    } else if ft.is_dir() {
        ('d', Vec::new(), String::new())
    } else if ft.is_symlink() {
        (
            'l',
            Vec::new(),
            std::fs::read_link(p)?.to_string_lossy().to_string(),
        )
    } else {
        ('?', Vec::new(), String::new())
    };
    Ok(SNode {
        kind,
        data: Arc::new(data),
        target,
        mode: md.mode() & 0o7777,
        mtime: (md.mtime(), md.mtime_nsec() as u32),
        uid: md.uid(),
        gid: md.gid(),
    })
}

/// Walk a real directory with lstat/readlink/read. Keys are apaths; "/" is the root itself.
pub fn walk(root: &Path) -> std::io::Result<Snap> {
    let mut out = Snap::new();
    fn rec(out: &mut Snap, root: &Path, apath: &str) -> std::io::Result<()> {
        let p = disk_path(root, apath);
        let n = stat_node(&p)?;
        let is_dir = n.kind == 'd';
        out.insert(apath.to_string(), n);
        if is_dir {
            let mut names: Vec<String> = Vec::new();
            for e in std::fs::read_dir(&p)? {
                // names that are not UTF-8 are outside the model (see EditOp::RawNames)
                if let Some(n) = e?.file_name().to_str() {
                    names.push(n.to_string());
                }
            }
            names.sort();
            for name in names {
                rec(out, root, &join_apath(apath, &name))?;
            }
        }
        Ok(())
    }
    rec(&mut out, root, "/")?;
    Ok(out)
}

// ---------------------------------------------------------------------------------------
// Materialisation

fn remove_any(p: &Path) -> std::io::Result<()> {
    match std::fs::symlink_metadata(p) {
        Err(_) => Ok(()),
        Ok(md) if md.is_dir() => {
            // a mode-000 directory is still removable by root
            std::fs::remove_dir_all(p)
        }
        Ok(_) => std::fs::remove_file(p),
    }
}

fn ft(t: (i64, u32)) -> filetime::FileTime {
    filetime::FileTime::from_unix_time(t.0, t.1)
}

fn set_meta_on_disk(p: &Path, n: &TNode) -> std::io::Result<()> {
    // owner first: chown clears setuid/setgid
    std::os::unix::fs::lchown(p, Some(n.meta.uid), Some(n.meta.gid))?;
    match n.kind {
        NodeKind::Symlink { .. } => {
            filetime::set_symlink_file_times(p, ft(n.meta.mtime), ft(n.meta.mtime))?;
        }
        _ => {
            std::fs::set_permissions(p, std::fs::Permissions::from_mode(n.meta.mode))?;
            filetime::set_file_times(p, ft(n.meta.mtime), ft(n.meta.mtime))?;
        }
    }
    Ok(())
}

/// Apply one edit to the model and, if applicable there, to the disk.
pub fn apply_edit(model: &mut TreeModel, root: &Path, e: &EditOp) -> std::io::Result<bool> {
    let was_dir = match e {
        EditOp::Put { path, .. } => model.is_dir(path),
        _ => false,
    };
    if !model.apply(e) {
        return Ok(false);
    }
    match e {
        EditOp::Put { path, node } => {
            let p = disk_path(root, path);
            match &node.kind {
                NodeKind::Dir => {
                    if !was_dir {
                        remove_any(&p)?;
                        std::fs::create_dir(&p)?;
                    }
                }
                NodeKind::File { size, cseed, period } => {
                    remove_any(&p)?;
                    std::fs::write(&p, file_bytes(*cseed, *size, *period))?;
                }
                NodeKind::Symlink { target } => {
                    remove_any(&p)?;
                    std::os::unix::fs::symlink(target, &p)?;
                }
            }
            set_meta_on_disk(&p, node)?;
        }
        EditOp::Remove { path } => remove_any(&disk_path(root, path))?,
        EditOp::Rename { from, to } => {
            std::fs::rename(disk_path(root, from), disk_path(root, to))?
        }
        EditOp::SetMeta { path, .. } => {
            let n = model.nodes.get(path).unwrap().clone();
            set_meta_on_disk(&disk_path(root, path), &n)?;
        }
        EditOp::RawNames { dir, names, kind } => {
            use std::os::unix::ffi::OsStrExt;
            for n in names {
                let p = disk_path(root, dir).join(std::ffi::OsStr::from_bytes(n));
                if p.symlink_metadata().is_ok() {
                    continue;
                }
                match kind {
                    0 => std::os::unix::fs::symlink("raw-name-target", &p)?,
                    1 => std::fs::write(&p, b"")?,
                    _ => std::fs::create_dir(&p)?,
                }
            }
        }
        EditOp::BulkEmptyFiles { dir, prefix, count, meta } => {
            let node = TNode { kind: NodeKind::File { size: 0, cseed: 0, period: 0 }, meta: *meta };
            for i in 0..*count {
                let p = disk_path(root, &join_apath(dir, &format!("{prefix}{i:05}")));
                if !p.exists() {
                    std::fs::write(&p, b"")?;
                    set_meta_on_disk(&p, &node)?;
                }
            }
        }
    }
    Ok(true)
}

/// After a burst of edits: put every directory's mtime back to the model's value (creating
/// or removing children moved it), deepest first.
pub fn settle_dir_times(model: &TreeModel, root: &Path) -> std::io::Result<()> {
    let mut dirs: Vec<(&String, &TNode)> = model
        .nodes
        .iter()
        .filter(|(_, n)| n.kind == NodeKind::Dir)
        .collect();
    dirs.sort_by_key(|(k, _)| std::cmp::Reverse(k.matches('/').count()));
    for (k, n) in dirs {
        let p = disk_path(root, k);
        filetime::set_file_times(&p, ft(n.meta.mtime), ft(n.meta.mtime))?;
    }
    Ok(())
}

/// The snapshot the model predicts (used to cross-check the walker, never instead of it).
pub fn model_snap(model: &TreeModel) -> Snap {
    model
        .nodes
        .iter()
        .map(|(k, n)| {
            let (kind, data, target, mode) = match &n.kind {
                NodeKind::File { size, cseed, period } => {
                    ('f', file_bytes(*cseed, *size, *period), String::new(), n.meta.mode)
                }
                NodeKind::Dir => ('d', Vec::new(), String::new(), n.meta.mode),
                NodeKind::Symlink { target } => ('l', Vec::new(), target.clone(), 0o777),
            };
            (
                k.clone(),
                SNode {
                    kind,
                    data: Arc::new(data),
                    target,
                    mode,
                    mtime: n.meta.mtime,
                    uid: n.meta.uid,
                    gid: n.meta.gid,
                },
            )
        })
        .collect()
}

// ---------------------------------------------------------------------------------------
// Comparison

#[derive(Clone, Debug, PartialEq, Eq)]
pub struct Mismatch {
    pub path: String,
    /// missing | extra | kind | content | target | mtime | mode | uid | gid
    pub field: &'static str,
    pub detail: String,
}

#[derive(Clone, Copy, Debug)]
pub struct CmpOpts {
    pub owner: bool,
    pub dir_mtime: bool,
    pub root_meta: bool,
}

impl Default for CmpOpts {
    fn default() -> Self {
        CmpOpts {
            owner: true,
            dir_mtime: true,
            root_meta: true,
        }
    }
}

pub fn content_diff_class(expected: &[u8], actual: &[u8]) -> &'static str {
    if actual.is_empty() {
        "empty"
    } else if actual.len() < expected.len() && expected.starts_with(actual) {
        "truncated"
    } else if actual.len() == expected.len() {
        "same_len_other_bytes"
    } else {
        "other_bytes"
    }
}

pub fn compare_node(path: &str, e: &SNode, a: &SNode, o: CmpOpts, out: &mut Vec<Mismatch>) {
    let mut push = |field: &'static str, detail: String| {
        out.push(Mismatch {
            path: path.to_string(),
            field,
            detail,
        })
    };
    if e.kind != a.kind {
        push("kind", format!("expected {} got {}", e.kind, a.kind));
        return;
    }
    if e.kind == 'f' && e.data != a.data {
        push(
            "content",
            format!(
                "{} (expected {} bytes, got {})",
                content_diff_class(&e.data, &a.data),
                e.data.len(),
                a.data.len()
            ),
        );
    }
    if e.kind == 'l' && e.target != a.target {
        push("target", format!("expected {:?} got {:?}", e.target, a.target));
    }
    let skip_meta = path == "/" && !o.root_meta;
    if !skip_meta {
        if e.mtime != a.mtime && (e.kind != 'd' || o.dir_mtime) {
            push("mtime", format!("expected {:?} got {:?}", e.mtime, a.mtime));
        }
        if e.kind != 'l' && e.mode != a.mode {
            push(
                "mode",
                format!("expected {:o} got {:o} lost={:o}", e.mode, a.mode, e.mode & !a.mode),
            );
        }
        if o.owner {
            if e.uid != a.uid {
                push("uid", format!("expected {} got {}", e.uid, a.uid));
            }
            if e.gid != a.gid {
                push("gid", format!("expected {} got {}", e.gid, a.gid));
            }
        }
    }
}

pub fn compare_snaps(expected: &Snap, actual: &Snap, o: CmpOpts) -> Vec<Mismatch> {
    let mut out = Vec::new();
    for (k, e) in expected {
        match actual.get(k) {
            None => out.push(Mismatch {
                path: k.clone(),
                field: "missing",
                detail: format!("kind {}", e.kind),
            }),
            Some(a) => compare_node(k, e, a, o, &mut out),
        }
    }
    for (k, a) in actual {
        if !expected.contains_key(k) {
            out.push(Mismatch {
                path: k.clone(),
                field: "extra",
                detail: format!("kind {}", a.kind),
            });
        }
    }
    out
}
