//! Reference exclusion rule for exactly the pattern grammar the generators emit:
//! literals, `*`, `?`, `[abc]`, `[a-c]` inside a component (never crossing '/', byte-wise),
//! `**` as a whole component (zero or more components); a leading '/' anchors the pattern at
//! the tree root, otherwise it may start at any depth; a match on an entry or on any of its
//! ancestors excludes it.

fn match_component(pat: &[u8], name: &[u8]) -> bool {
    // classic backtracking glob on bytes
    fn rec(p: &[u8], n: &[u8]) -> bool {
        if p.is_empty() {
            return n.is_empty();
        }
        match p[0] {
            b'*' => {
                for k in 0..=n.len() {
                    if rec(&p[1..], &n[k..]) {
                        return true;
                    }
                }
                false
            }
            b'?' => !n.is_empty() && rec(&p[1..], &n[1..]),
            b'[' => {
                let Some(end) = p.iter().position(|c| *c == b']') else {
                    return !n.is_empty() && n[0] == b'[' && rec(&p[1..], &n[1..]);
                };
                if n.is_empty() {
                    return false;
                }
                let set = &p[1..end];
                let c = n[0];
                let mut hit = false;
                let mut i = 0;
                while i < set.len() {
                    if i + 2 < set.len() && set[i + 1] == b'-' {
                        if set[i] <= c && c <= set[i + 2] {
                            hit = true;
                        }
                        i += 3;
                    } else {
                        if set[i] == c {
                            hit = true;
                        }
                        i += 1;
                    }
                }
                hit && rec(&p[end + 1..], &n[1..])
            }
            c => !n.is_empty() && n[0] == c && rec(&p[1..], &n[1..]),
        }
    }
    rec(pat, name)
}

/// Does the component pattern list match exactly the component list?
fn match_components(pat: &[&str], comps: &[&str]) -> bool {
    if pat.is_empty() {
        return comps.is_empty();
    }
    if pat[0] == "**" {
        if pat.len() == 1 {
            // a trailing `/**` means "everything inside", not the directory itself
            return !comps.is_empty();
        }
        for k in 0..=comps.len() {
            if match_components(&pat[1..], &comps[k..]) {
                return true;
            }
        }
        return false;
    }
    !comps.is_empty() && match_component(pat[0].as_bytes(), comps[0].as_bytes()) && match_components(&pat[1..], &comps[1..])
}

/// Does `pattern` match the path `apath` itself (not considering ancestors)?
pub fn pattern_matches_path(pattern: &str, apath: &str) -> bool {
    if apath == "/" {
        return false;
    }
    let comps: Vec<&str> = apath[1..].split('/').collect();
    if let Some(rest) = pattern.strip_prefix('/') {
        let pat: Vec<&str> = rest.split('/').collect();
        match_components(&pat, &comps)
    } else {
        let pat: Vec<&str> = pattern.split('/').collect();
        (0..comps.len()).any(|start| match_components(&pat, &comps[start..]))
    }
}

/// The reference rule: excluded iff the entry or one of its ancestors matches a pattern.
pub fn ref_excluded(patterns: &[String], apath: &str) -> bool {
    if apath == "/" {
        return false;
    }
    let comps: Vec<&str> = apath[1..].split('/').collect();
    for k in 1..=comps.len() {
        let anc = format!("/{}", comps[..k].join("/"));
        if patterns.iter().any(|p| pattern_matches_path(p, &anc)) {
            return true;
        }
    }
    false
}

#[cfg(test)]
mod tests {
    use super::*;
    #[test]
    fn basics() {
        let p = |s: &str| vec![s.to_string()];
        assert!(ref_excluded(&p("a"), "/a"));
        assert!(ref_excluded(&p("a"), "/x/a"));
        assert!(ref_excluded(&p("a"), "/a/b"));
        assert!(!ref_excluded(&p("/a"), "/x/a"));
        assert!(ref_excluded(&p("/a"), "/a/b/c"));
        assert!(ref_excluded(&p("*.o"), "/x/y.o"));
        assert!(!ref_excluded(&p("*.o"), "/x/y.oo"));
        assert!(ref_excluded(&p("/**/b"), "/a/c/b"));
        assert!(ref_excluded(&p("/**/b"), "/b"));
        assert!(ref_excluded(&p("a?"), "/ab"));
        assert!(!ref_excluded(&p("a?"), "/a"));
        assert!(ref_excluded(&p("[a-c]x"), "/bx"));
        assert!(!ref_excluded(&p("a/b"), "/a/c"));
        assert!(ref_excluded(&p("a/b"), "/z/a/b/q"));
    }
}
