//! Delta-debugging of an explicit scenario while the violation signature persists.

use std::time::{Duration, Instant};

use crate::report::Acc;
use crate::scenario::{Scenario, Step};
use crate::store::ListOrder;
use crate::tree::EditOp;
use crate::world::Opts;

pub type Exec = fn(&Scenario, &mut Acc) -> Result<Vec<crate::report::Violation>, String>;

pub fn still_fails(exec: Exec, sc: &Scenario, sig: &str, attempts: u32) -> bool {
    if attempts <= 1 {
        let mut acc = Acc::default();
        return matches!(exec(sc, &mut acc), Ok(vs) if vs.iter().any(|v| v.signature() == sig));
    }
    // Several attempts, executed at the same time on several threads: nondeterminism of the
    // program under test that comes from a randomly seeded hash map shows up in some
    // executions only, and nondeterminism that comes from contention between threads of one
    // process (a try_lock on a process-wide cache, say) shows up only under contention.
    let hit = std::sync::atomic::AtomicBool::new(false);
    std::thread::scope(|s| {
        for _ in 0..16 {
            s.spawn(|| {
                for _ in 0..6 {
                    if hit.load(std::sync::atomic::Ordering::SeqCst) {
                        return;
                    }
                    let mut acc = Acc::default();
                    if let Ok(vs) = exec(sc, &mut acc) {
                        if vs.iter().any(|v| v.signature() == sig) {
                            hit.store(true, std::sync::atomic::Ordering::SeqCst);
                        }
                    }
                }
            });
        }
    });
    hit.load(std::sync::atomic::Ordering::SeqCst)
}

/// Candidate simplifications, most aggressive first.
fn candidates(sc: &Scenario) -> Vec<Scenario> {
    let mut out = Vec::new();
    // drop a whole step (never the last one: it usually carries the probe)
    if sc.steps.len() > 1 {
        for i in 0..sc.steps.len() - 1 {
            let mut c = sc.clone();
            c.steps.remove(i);
            out.push(c);
        }
    }
    // drop halves, then single edits, of edit bursts
    for (i, s) in sc.steps.iter().enumerate() {
        if let Step::Edit(es) = s {
            if es.len() > 1 {
                let mut c = sc.clone();
                c.steps[i] = Step::Edit(es[..es.len() / 2].to_vec());
                out.push(c);
                let mut c = sc.clone();
                c.steps[i] = Step::Edit(es[es.len() / 2..].to_vec());
                out.push(c);
            }
            for j in 0..es.len() {
                let mut c = sc.clone();
                let mut v = es.clone();
                v.remove(j);
                c.steps[i] = Step::Edit(v);
                out.push(c);
            }
        }
    }
    // schedules: fewer preemptions
    for (i, s) in sc.steps.iter().enumerate() {
        if let Step::Race { actors, schedule: crate::sim::Schedule::Explicit(list) } = s {
            // segment boundaries
            let mut bounds = vec![0usize];
            for j in 1..list.len() {
                if list[j] != list[j - 1] {
                    bounds.push(j);
                }
            }
            bounds.push(list.len());
            // merge segment k into its successor's far side: [..a..][..b..][..a..] -> [..b..][..a..a..]
            for k in 0..bounds.len().saturating_sub(2) {
                let (s0, s1, s2) = (bounds[k], bounds[k + 1], bounds[k + 2]);
                let mut v = list[..s0].to_vec();
                v.extend_from_slice(&list[s1..s2]);
                v.extend_from_slice(&list[s0..s1]);
                v.extend_from_slice(&list[s2..]);
                let mut c = sc.clone();
                c.steps[i] = Step::Race { actors: actors.clone(), schedule: crate::sim::Schedule::Explicit(v) };
                out.push(c);
            }
            // truncate at a boundary (the rest runs lowest-id-first)
            for b in bounds.iter().rev().skip(1) {
                if *b > 0 && *b < list.len() {
                    let mut c = sc.clone();
                    c.steps[i] = Step::Race { actors: actors.clone(), schedule: crate::sim::Schedule::Explicit(list[..*b].to_vec()) };
                    out.push(c);
                }
            }
        }
    }
    // environment: sorted listings, no delays
    if sc.env.list_order != ListOrder::Sorted {
        let mut c = sc.clone();
        c.env.list_order = ListOrder::Sorted;
        out.push(c);
    }
    if sc.env.delay.is_some() {
        let mut c = sc.clone();
        c.env.delay = None;
        out.push(c);
    }
    // options back to defaults, one field at a time
    let d = Opts::default();
    for (i, s) in sc.steps.iter().enumerate() {
        if let Step::Backup { opts, plan } = s {
            let mut variants: Vec<Opts> = Vec::new();
            if opts.max_entries_per_hunk != d.max_entries_per_hunk {
                variants.push(Opts { max_entries_per_hunk: d.max_entries_per_hunk, ..opts.clone() });
            }
            if opts.max_block_size != d.max_block_size {
                variants.push(Opts { max_block_size: d.max_block_size, ..opts.clone() });
            }
            if opts.small_file_cap != d.small_file_cap {
                variants.push(Opts { small_file_cap: d.small_file_cap, ..opts.clone() });
            }
            if !opts.owner {
                variants.push(Opts { owner: true, ..opts.clone() });
            }
            for v in variants {
                let mut c = sc.clone();
                c.steps[i] = Step::Backup { opts: v, plan: plan.clone() };
                out.push(c);
            }
            // fewer faults, earlier faults
            if plan.at.len() > 1 {
                for k in plan.at.keys() {
                    let mut p = plan.clone();
                    p.at.remove(k);
                    let mut c = sc.clone();
                    c.steps[i] = Step::Backup { opts: opts.clone(), plan: p };
                    out.push(c);
                }
            }
        }
    }
    // simpler files: shrink sizes, plain metadata
    for (i, s) in sc.steps.iter().enumerate() {
        if let Step::Edit(es) = s {
            for (j, e) in es.iter().enumerate() {
                if let EditOp::Put { path, node } = e {
                    let mut simpler = Vec::new();
                    if let crate::tree::NodeKind::File { size, cseed, period } = node.kind {
                        if size > 1 {
                            let mut n = node.clone();
                            n.kind = crate::tree::NodeKind::File { size: size / 2, cseed, period };
                            simpler.push(n);
                        }
                    }
                    if node.meta.uid != 0 || node.meta.gid != 0 {
                        let mut n = node.clone();
                        n.meta.uid = 0;
                        n.meta.gid = 0;
                        simpler.push(n);
                    }
                    if node.meta.mtime.1 != 0 {
                        let mut n = node.clone();
                        n.meta.mtime.1 = 0;
                        simpler.push(n);
                    }
                    if node.meta.mode != 0o644 && !matches!(node.kind, crate::tree::NodeKind::Symlink { .. }) {
                        let mut n = node.clone();
                        n.meta.mode = if node.kind == crate::tree::NodeKind::Dir { 0o755 } else { 0o644 };
                        simpler.push(n);
                    }
                    for n in simpler {
                        let mut c = sc.clone();
                        let mut v = es.clone();
                        v[j] = EditOp::Put { path: path.clone(), node: n };
                        c.steps[i] = Step::Edit(v);
                        out.push(c);
                    }
                }
            }
        }
    }
    out
}

pub fn minimise(exec: Exec, sc: &Scenario, sig: &str, budget: Duration, attempts: u32) -> (Scenario, usize) {
    let start = Instant::now();
    let mut best = sc.clone();
    let mut tried = 0usize;
    'outer: loop {
        for c in candidates(&best) {
            if start.elapsed() > budget {
                break 'outer;
            }
            tried += 1;
            if still_fails(exec, &c, sig, attempts) {
                best = c;
                continue 'outer;
            }
        }
        break;
    }
    (best, tried)
}
