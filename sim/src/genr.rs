//! Seeded generators: names, metadata, sizes, option sets, edit bursts, exclusion patterns.

use crate::rng::Rng;
use crate::tree::{EditOp, Meta, NodeKind, TNode, TreeModel, join_apath, parent_apath};
use crate::world::Opts;

#[derive(Clone, Copy, Debug, PartialEq, Eq)]
pub enum NameStyle {
    Ascii,
    /// bytes below and above '/', leading dots, siblings that extend one another
    Ordering,
    /// multi-byte UTF-8 alone and as prefixes of siblings
    Unicode,
    Mixed,
}

#[derive(Clone, Debug)]
pub struct GenCfg {
    pub names: NameStyle,
    pub max_burst: usize,
    pub max_depth: usize,
    pub opts: Opts,
    pub pre_epoch: bool,
    pub nanos: bool,
    pub special_modes: bool,
    pub owners: bool,
    pub symlinks: bool,
    pub max_file: usize,
    /// Pairs of identical files larger than 1 MiB (blocks above that size exist only then).
    pub big_twins: bool,
    /// Directory entries whose names are not valid UTF-8.
    pub raw_names: bool,
    /// Numeric owners or groups that have no name on this machine (Conserve records names).
    pub unnamed_owners: bool,
}

impl GenCfg {
    pub fn draw(r: &mut Rng, opts: &Opts, thorough: bool) -> GenCfg {
        GenCfg {
            names: *r.pick(&[
                NameStyle::Ascii,
                NameStyle::Ordering,
                NameStyle::Unicode,
                NameStyle::Mixed,
                NameStyle::Mixed,
            ]),
            max_burst: if thorough { 4 + r.usize(36) } else { 2 + r.usize(11) },
            max_depth: 1 + r.usize(4),
            opts: opts.clone(),
            pre_epoch: r.chance(1, 2),
            nanos: r.chance(2, 3),
            special_modes: r.chance(2, 3),
            owners: r.chance(1, 2),
            symlinks: r.chance(3, 4),
            max_file: 16 * 1024,
            big_twins: r.chance(1, 16),
            raw_names: r.chance(1, 6),
            unnamed_owners: false,
        }
    }
}

const ASCII: &[&str] = &["a", "b", "c", "d", "e", "f", "g", "h", "k", "x", "y", "z", "file", "dir", "data"];
const ORDERING: &[&str] = &[
    "a", "ab", "a.b", "a-b", "a b", "a!", "a~", "a0", "b", "ba", ".a", ".hidden", "..x", "-", "~", "0", "A",
    "a.", "a..b", "!", "aa", "a/b-placeholder",
];
const UNICODE: &[&str] = &[
    "é", "éa", "é.b", "ü", "語", "語a", "🙂", "🙂x", "aé", "a語", "Ω", "é語", "ñ", "ña", "é-", "é ",
];

/// Names that stress escaping and normalisation rather than ordering: control characters,
/// JSON-special characters, a decomposed accent next to UNICODE's precomposed one, U+FFFD
/// itself, and a long name.
const ODD: &[&str] = &[
    "a\nb", "a\"b", "a\\b", "\u{1}", "a\tb", "\u{7f}", "\u{FFFD}", "e\u{301}", "n-\u{FFFD}", " ", "a\rb", "'",
    "xxxxxxxxxxxxxxxxxxxxxxxxxxxxxxxxxxxxxxxxxxxxxxxxxxxxxxxxxxxxxxxxxxxxxxxxxxxxxxxxxxxxxxxxxxxxxxxxxxxxxxxxxxxxxxxxxxxxxxxxxxxxxxxxxxxxxxxxxxxxxxxxxxxxxxxxxxxxxxxxxxxxxxxxxxxxxxxxxxxxxxxxxxxxxxxxxxxxxxxx",
];

pub struct Gen {
    pub r: Rng,
    pub next_cseed: u64,
    pub clock: i64,
}

pub fn draw_opts(r: &mut Rng) -> Opts {
    Opts {
        max_entries_per_hunk: *r.pick(&[1, 2, 3, 5, 8, 100_000, 100_000]),
        max_block_size: *r.pick(&[1, 2, 7, 16, 64, 4096, 20 << 20, 20 << 20]),
        small_file_cap: *r.pick(&[0, 1, 8, 64, 1 << 20, 1 << 20]),
        owner: r.chance(3, 4),
        exclude: vec![],
    }
}

/// Options biased to make combined blocks flush by size in mid-run.
pub fn draw_opts_small_blocks(r: &mut Rng) -> Opts {
    Opts {
        max_entries_per_hunk: *r.pick(&[2, 3, 5, 8, 100_000]),
        max_block_size: *r.pick(&[2, 7, 16, 64]),
        small_file_cap: *r.pick(&[8, 64, 1 << 20]),
        owner: r.chance(3, 4),
        exclude: vec![],
    }
}

impl Gen {
    pub fn new(r: Rng) -> Gen {
        Gen {
            r,
            next_cseed: 1,
            clock: 0,
        }
    }

    pub fn cseed(&mut self) -> u64 {
        self.next_cseed += 1;
        // spread so that equal counters in different runs still differ
        self.next_cseed.wrapping_mul(0x9E3779B97F4A7C15) ^ (self.r.next_u64() & 0xffff_0000)
    }

    pub fn name(&mut self, cfg: &GenCfg) -> String {
        let table: &[&str] = match cfg.names {
            NameStyle::Ascii => ASCII,
            NameStyle::Ordering => ORDERING,
            NameStyle::Unicode => UNICODE,
            NameStyle::Mixed => match self.r.below(7) {
                0 | 1 => ASCII,
                2 | 3 => ORDERING,
                4 | 5 => UNICODE,
                _ => ODD,
            },
        };
        loop {
            let n = *self.r.pick(table);
            if !n.contains('/') {
                return n.to_string();
            }
        }
    }

    pub fn mtime(&mut self, cfg: &GenCfg) -> (i64, u32) {
        self.clock += 1 + self.r.below(50) as i64;
        if cfg.pre_epoch && self.r.chance(1, 10) {
            // the seconds around the epoch, where "floor" and "truncate" part ways
            return *self.r.pick(&[
                (-1i64, 1u32),
                (-1, 999_999_999),
                (-1, 500_000_000),
                (-1, 0),
                (0, 0),
                (0, 1),
                (-2, 999_999_999),
                (-2, 1),
                (1, 0),
            ]);
        }
        let era: i64 = if cfg.pre_epoch && self.r.chance(2, 5) {
            *self.r.pick(&[-1_000_000_000i64, -200_000, -(1i64 << 33), -1_000_000_000])
        } else {
            *self.r.pick(&[1_500_000_000i64, 1_500_000_000, 1_700_000_000, 1i64 << 33, 0])
        };
        let ns = if cfg.nanos && self.r.chance(3, 5) {
            *self.r.pick(&[1u32, 500_000_000, 999_999_999, 123_456_789, 0]) ^ 0
        } else {
            0
        };
        let ns = if ns == 0 && cfg.nanos && self.r.chance(1, 3) {
            self.r.below(1_000_000_000) as u32
        } else {
            ns
        };
        (era + self.clock, ns)
    }

    pub fn mode(&mut self, cfg: &GenCfg, dir: bool) -> u32 {
        if cfg.special_modes && self.r.chance(1, 3) {
            match self.r.below(6) {
                0 => 0o4755,
                1 => 0o2755,
                2 => 0o1777,
                3 => 0o000,
                4 => 0o6711,
                _ => self.r.below(0o10000) as u32,
            }
        } else if dir {
            *self.r.pick(&[0o755, 0o700, 0o775, 0o750])
        } else {
            *self.r.pick(&[0o644, 0o600, 0o755, 0o664, 0o444])
        }
    }

    pub fn owner(&mut self, cfg: &GenCfg) -> (u32, u32) {
        if cfg.owners && cfg.unnamed_owners && self.r.chance(1, 3) {
            (*self.r.pick(&[0u32, 1, 54_321]), *self.r.pick(&[0u32, 2, 54_321, 54_322]))
        } else if cfg.owners && self.r.chance(1, 2) {
            (self.r.below(4) as u32, self.r.below(4) as u32)
        } else {
            (0, 0)
        }
    }

    pub fn meta(&mut self, cfg: &GenCfg, dir: bool) -> Meta {
        let (uid, gid) = self.owner(cfg);
        Meta {
            mode: self.mode(cfg, dir),
            mtime: self.mtime(cfg),
            uid,
            gid,
        }
    }

    pub fn size(&mut self, cfg: &GenCfg) -> usize {
        let cap = cfg.opts.small_file_cap as usize;
        let blk = cfg.opts.max_block_size;
        let mut cands: Vec<usize> = vec![0, 1, 2, 3, 5, 9, 17, 40, 100, 1000];
        for c in [
            cap.saturating_sub(1),
            cap,
            cap + 1,
            blk.saturating_sub(1),
            blk,
            blk + 1,
            2 * blk,
            3 * blk + 1 + self.r.usize(7),
            4 * blk,
        ] {
            if c <= cfg.max_file {
                cands.push(c);
                cands.push(c);
            }
        }
        if self.r.chance(1, 6) {
            self.r.usize(4097)
        } else {
            *self.r.pick(&cands)
        }
    }

    pub fn file_node(&mut self, cfg: &GenCfg, dup_of: Option<(usize, u64, usize)>) -> TNode {
        let (size, cseed, period) = match dup_of {
            Some(d) => d,
            None if self.r.chance(1, 30) => {
                // all zero bytes, a page or more
                let blk = cfg.opts.max_block_size;
                let mut sizes = vec![4096usize, 4097, 8192, 12_288];
                if (2048..=8192).contains(&blk) {
                    sizes.push(2 * blk);
                    sizes.push(blk + 4096);
                }
                (*self.r.pick(&sizes), 0, 0)
            }
            None => (self.size(cfg), self.cseed(), 0),
        };
        TNode {
            kind: NodeKind::File { size, cseed, period },
            meta: self.meta(cfg, false),
        }
    }

    fn symlink_target(&mut self, model: &TreeModel) -> String {
        let keys: Vec<&String> = model.nodes.keys().collect();
        match self.r.below(7) {
            0 => "dangling-target".to_string(),
            1 => "../outside/f".to_string(),
            2 => "/nonexistent/absolute/path".to_string(),
            3 => "..".to_string(),
            4 => ".".to_string(),
            _ => {
                let k = self.r.pick(&keys);
                if k.as_str() == "/" {
                    "./".to_string()
                } else {
                    // relative to the tree root: correct only for top-level links, dangling
                    // otherwise, which is just as good
                    k[1..].to_string()
                }
            }
        }
    }

    fn depth(p: &str) -> usize {
        if p == "/" { 0 } else { p.matches('/').count() }
    }

    /// One explicit edit applicable to `m`, or None if the draw did not produce one.
    pub fn one_edit(&mut self, m: &TreeModel, cfg: &GenCfg) -> Option<EditOp> {
        let dirs: Vec<String> = m
            .dirs()
            .into_iter()
            .filter(|d| Self::depth(d) < cfg.max_depth)
            .collect();
        let non_root: Vec<&String> = m.nodes.keys().filter(|k| k.as_str() != "/").collect();
        let files: Vec<(&String, usize, u64, usize)> = m
            .nodes
            .iter()
            .filter_map(|(k, n)| match n.kind {
                NodeKind::File { size, cseed, period } => Some((k, size, cseed, period)),
                _ => None,
            })
            .collect();
        let roll = if non_root.len() < 3 { self.r.below(40) } else { self.r.below(100) };
        match roll {
            // new or replaced file (replacement of any kind included)
            0..=39 => {
                let d = self.r.pick(&dirs).clone();
                let name = self.name(cfg);
                let dup = if !files.is_empty() && self.r.chance(1, 6) {
                    let f = self.r.pick(&files);
                    Some((f.1, f.2, f.3))
                } else {
                    None
                };
                Some(EditOp::Put {
                    path: join_apath(&d, &name),
                    node: self.file_node(cfg, dup),
                })
            }
            40..=51 => {
                let d = self.r.pick(&dirs).clone();
                let name = self.name(cfg);
                Some(EditOp::Put {
                    path: join_apath(&d, &name),
                    node: TNode {
                        kind: NodeKind::Dir,
                        meta: self.meta(cfg, true),
                    },
                })
            }
            52..=59 if cfg.symlinks => {
                let d = self.r.pick(&dirs).clone();
                let name = self.name(cfg);
                let target = self.symlink_target(m);
                let mut meta = self.meta(cfg, false);
                meta.mode = 0o777;
                Some(EditOp::Put {
                    path: join_apath(&d, &name),
                    node: TNode {
                        kind: NodeKind::Symlink { target },
                        meta,
                    },
                })
            }
            // overwrite / append / truncate an existing file: new content, new mtime
            60..=71 if !files.is_empty() => {
                let (k, size, _, _) = *self.r.pick(&files);
                let new_size = match self.r.below(4) {
                    0 => size,
                    1 => size + 1 + self.r.usize(20),
                    2 => size / 2,
                    _ => self.size(cfg),
                };
                let old = m.nodes.get(k).unwrap();
                let mut meta = old.meta;
                meta.mtime = self.mtime(cfg);
                // the minimal change the property still covers: same size, same second,
                // only the nanoseconds move
                let minimal = self.r.chance(1, 4);
                let new_size = if minimal { size } else { new_size };
                if minimal {
                    meta.mtime = (old.meta.mtime.0, (old.meta.mtime.1 + 1 + self.r.below(5) as u32) % 1_000_000_000);
                    if meta.mtime.1 < old.meta.mtime.1 {
                        meta.mtime.0 += 1;
                    }
                }
                Some(EditOp::Put {
                    path: k.clone(),
                    node: TNode {
                        kind: NodeKind::File {
                            size: new_size,
                            cseed: self.cseed(),
                            period: 0,
                        },
                        meta,
                    },
                })
            }
            72..=79 if !non_root.is_empty() => Some(EditOp::Remove {
                path: (*self.r.pick(&non_root)).clone(),
            }),
            80..=84 if !non_root.is_empty() => {
                let from = (*self.r.pick(&non_root)).clone();
                let d = self.r.pick(&dirs).clone();
                let name = self.name(cfg);
                Some(EditOp::Rename {
                    from,
                    to: join_apath(&d, &name),
                })
            }
            85..=89 => {
                let keys: Vec<&String> = m.nodes.keys().collect();
                let k = (*self.r.pick(&keys)).clone();
                let dir = m.is_dir(&k);
                Some(EditOp::SetMeta {
                    path: k,
                    mode: Some(self.mode(cfg, dir)),
                    mtime: None,
                    owner: None,
                })
            }
            90..=94 => {
                let keys: Vec<&String> = m.nodes.keys().collect();
                let k = (*self.r.pick(&keys)).clone();
                Some(EditOp::SetMeta {
                    path: k,
                    mode: None,
                    mtime: Some(self.mtime(cfg)),
                    owner: None,
                })
            }
            95..=97 if cfg.owners => {
                let keys: Vec<&String> = m.nodes.keys().collect();
                let k = (*self.r.pick(&keys)).clone();
                Some(EditOp::SetMeta {
                    path: k,
                    mode: None,
                    mtime: None,
                    owner: Some((self.r.below(4) as u32, self.r.below(4) as u32)),
                })
            }
            _ => None,
        }
    }

    /// A burst of edits, each applicable after the previous ones.
    pub fn burst(&mut self, model: &TreeModel, cfg: &GenCfg, n: usize) -> Vec<EditOp> {
        let mut m = model.clone();
        let mut out = Vec::new();
        let mut tries = 0;
        if self.r.chance(1, 8) {
            for e in self.block_twin_scaffold(&m, cfg) {
                if m.apply(&e) {
                    out.push(e);
                }
            }
        }
        if cfg.symlinks && self.r.chance(1, 10) {
            for e in self.dir_to_symlink_scaffold(&m) {
                if m.apply(&e) {
                    out.push(e);
                }
            }
        }
        if cfg.symlinks && self.r.chance(1, 12) {
            for e in self.symlink_sibling_scaffold(&m, cfg) {
                if m.apply(&e) {
                    out.push(e);
                }
            }
        }
        if cfg.raw_names && self.r.chance(1, 4) {
            let dirs = m.dirs();
            let dir = self.r.pick(&dirs).clone();
            // two names that become the same string under lossy decoding, or one alone
            let names: Vec<Vec<u8>> = match self.r.below(3) {
                0 => vec![b"n-\xfe".to_vec(), b"n-\xff".to_vec()],
                1 => vec![b"\xff".to_vec(), b"\xc3".to_vec(), b"a\xe9".to_vec()],
                _ => vec![b"z\xf0\x9f".to_vec()],
            };
            let e = EditOp::RawNames { dir, names, kind: self.r.below(3) as u8 };
            if m.apply(&e) {
                out.push(e);
            }
        }
        while out.len() < n && tries < n * 6 + 10 {
            tries += 1;
            if let Some(e) = self.one_edit(&m, cfg) {
                // do not let a Put silently replace a whole populated directory too often
                if let EditOp::Put { path, node } = &e {
                    if m.is_dir(path)
                        && node.kind != NodeKind::Dir
                        && m.subtree_keys(path).len() > 3
                        && !self.r.chance(1, 5)
                    {
                        continue;
                    }
                    if path != "/" && !m.is_dir(parent_apath(path)) {
                        continue;
                    }
                }
                // the property's precondition: new content always comes with a new mtime or a
                // new size (fixed edge mtimes could otherwise repeat)
                let e = match e {
                    EditOp::Put { path, mut node } => {
                        if let (NodeKind::File { size, cseed, .. }, Some(old)) = (&node.kind, m.nodes.get(&path)) {
                            if let NodeKind::File { size: osize, cseed: oseed, .. } = &old.kind {
                                if osize == size && oseed != cseed && old.meta.mtime == node.meta.mtime {
                                    node.meta.mtime.1 = (node.meta.mtime.1 + 1) % 1_000_000_000;
                                }
                            }
                        }
                        EditOp::Put { path, node }
                    }
                    other => other,
                };
                if m.apply(&e) {
                    out.push(e);
                }
            }
        }
        out
    }

    /// Files whose blocks coincide: a file whose content repeats with the block size as its
    /// period (its blocks are all equal, and its last, shorter chunk is a prefix of them), a
    /// file that is exactly that shorter chunk, and a file that is exactly one block. The
    /// same content then reaches the store by different routes (whole small file in a combined
    /// block, chunk of a large file) within one run. With `big_twins`, two identical files
    /// somewhat above 1 MiB, which is the only way blocks above 1 MiB come to exist.
    pub fn block_twin_scaffold(&mut self, model: &TreeModel, cfg: &GenCfg) -> Vec<EditOp> {
        let dirs = model.dirs();
        let mut out = Vec::new();
        let blk = cfg.opts.max_block_size;
        let cseed = self.cseed();
        if cfg.big_twins && blk > (1 << 20) {
            let size = (1 << 20) + *self.r.pick(&[1usize, 4096, 300_000]);
            for _ in 0..2 {
                let d = self.r.pick(&dirs).clone();
                let name = self.name(cfg);
                out.push(EditOp::Put { path: join_apath(&d, &name), node: self.file_node(cfg, Some((size, cseed, 0))) });
            }
            return out;
        }
        if !(2..=4096).contains(&blk) {
            return out;
        }
        let t = 1 + self.r.usize(blk - 1);
        let k = 1 + self.r.usize(3);
        let mut sizes = vec![(k * blk + t, blk), (t, 0)];
        if self.r.chance(1, 2) {
            sizes.push((blk, 0));
        }
        if self.r.chance(1, 3) {
            sizes.push((k * blk, blk));
        }
        // in any order of names
        for (size, period) in sizes {
            let d = self.r.pick(&dirs).clone();
            let name = self.name(cfg);
            out.push(EditOp::Put { path: join_apath(&d, &name), node: self.file_node(cfg, Some((size, cseed, period))) });
        }
        out
    }

    /// A symlink and, beside it, a populated directory (and a file) whose names merely EXTEND
    /// the link's name: textual prefixes that are not path prefixes.
    pub fn symlink_sibling_scaffold(&mut self, model: &TreeModel, cfg: &GenCfg) -> Vec<EditOp> {
        let dirs = model.dirs();
        let parent = self.r.pick(&dirs).clone();
        let base = *self.r.pick(&["a", "é", "dir", "lib.so"]);
        let ext = *self.r.pick(&["b", "-b", ".d", ".1", " x", "é"]);
        let link = join_apath(&parent, base);
        let sib = join_apath(&parent, &format!("{base}{ext}"));
        let target = *self.r.pick(&["dangling-target", ".", "..", "/nonexistent/absolute/path"]);
        vec![
            EditOp::Put { path: link, node: TNode { kind: NodeKind::Symlink { target: target.to_string() }, meta: self.meta(cfg, false) } },
            EditOp::Put { path: sib.clone(), node: TNode { kind: NodeKind::Dir, meta: self.meta(cfg, true) } },
            EditOp::Put { path: join_apath(&sib, "in"), node: self.file_node(cfg, None) },
            EditOp::Put { path: join_apath(&parent, &format!("{base}.txt")), node: self.file_node(cfg, None) },
        ]
    }

    /// A populated directory is replaced by a symlink that resolves to another existing
    /// directory of the tree (relative target, correct from the link's own directory). A
    /// backup interrupted after it has recorded the link is then stitched onto an older
    /// version that still holds entries below that path.
    pub fn dir_to_symlink_scaffold(&mut self, model: &TreeModel) -> Vec<EditOp> {
        let dirs = model.dirs();
        let victims: Vec<&String> = dirs.iter().filter(|d| d.as_str() != "/" && model.subtree_keys(d).len() > 1).collect();
        if victims.is_empty() {
            return vec![];
        }
        let victim = (*self.r.pick(&victims)).clone();
        let others: Vec<&String> = dirs
            .iter()
            .filter(|d| d.as_str() != "/" && **d != victim && !d.starts_with(&format!("{victim}/")) && !victim.starts_with(&format!("{d}/")))
            .collect();
        if others.is_empty() {
            return vec![];
        }
        let goal = (*self.r.pick(&others)).clone();
        // relative path from the victim's parent directory to the goal
        let depth = victim.matches('/').count() - 1;
        let target = format!("{}{}", "../".repeat(depth), &goal[1..]);
        let meta = model.nodes[&victim].meta;
        vec![
            EditOp::Remove { path: victim.clone() },
            EditOp::Put { path: victim, node: TNode { kind: NodeKind::Symlink { target }, meta } },
        ]
    }

    /// Sibling directories whose names extend one another with a byte below or above '/',
    /// each with content, one of them with a nested subdirectory: the shape on which
    /// component-wise and flat byte-wise path orders disagree.
    pub fn extension_sibling_scaffold(&mut self, model: &TreeModel, cfg: &GenCfg) -> Vec<EditOp> {
        let dirs = model.dirs();
        let parent = self.r.pick(&dirs).clone();
        let base = *self.r.pick(&["a", "b", "é", "dir", "z"]);
        let ext = *self.r.pick(&[".", "-", " ", "!", "~", "0", "é", "+"]);
        let d1 = join_apath(&parent, base);
        let d2 = join_apath(&parent, &format!("{base}{ext}x"));
        let sub = join_apath(&d1, *self.r.pick(&["s", "b", "~", " "]));
        let mut out = Vec::new();
        let mut dir = |g: &mut Gen, p: &str| EditOp::Put { path: p.to_string(), node: TNode { kind: NodeKind::Dir, meta: g.meta(cfg, true) } };
        out.push(dir(self, &d1));
        out.push(dir(self, &d2));
        out.push(dir(self, &sub));
        out.push(EditOp::Put { path: join_apath(&sub, "f"), node: self.file_node(cfg, None) });
        out.push(EditOp::Put { path: join_apath(&d2, "g"), node: self.file_node(cfg, None) });
        out.push(EditOp::Put { path: join_apath(&d1, "h"), node: self.file_node(cfg, None) });
        out
    }

    pub fn root_meta(&mut self, cfg: &GenCfg) -> Meta {
        let mut m = self.meta(cfg, true);
        // keep the root traversable in case the harness is ever run unprivileged
        m.mode |= 0o700;
        m
    }
}
