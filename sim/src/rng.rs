//! The only source of randomness in the simulator: SplitMix64-seeded xoshiro256**.
//! Every choice of a run (workload, faults, schedules, listing order, delays) is drawn
//! from generators derived from the run seed by `Rng::derive`, never from the OS.

#[derive(Clone, Debug)]
pub struct Rng {
    s: [u64; 4],
}

pub fn splitmix(x: &mut u64) -> u64 {
    *x = x.wrapping_add(0x9E3779B97F4A7C15);
    let mut z = *x;
    z = (z ^ (z >> 30)).wrapping_mul(0xBF58476D1CE4E5B9);
    z = (z ^ (z >> 27)).wrapping_mul(0x94D049BB133111EB);
    z ^ (z >> 31)
}

/// Stable 64-bit mix of several integers (FNV-style then splitmix finaliser).
pub fn mix(parts: &[u64]) -> u64 {
    let mut h: u64 = 0xcbf29ce484222325;
    for p in parts {
        let mut x = *p ^ h;
        h = splitmix(&mut x) ^ h.rotate_left(17);
    }
    let mut x = h;
    splitmix(&mut x)
}

pub fn hash_str(s: &str) -> u64 {
    hash_bytes(s.as_bytes())
}

pub fn hash_bytes(b: &[u8]) -> u64 {
    let mut h: u64 = 0xcbf29ce484222325;
    for c in b {
        h ^= *c as u64;
        h = h.wrapping_mul(0x100000001b3);
    }
    let mut x = h;
    splitmix(&mut x)
}

impl Rng {
    pub fn new(seed: u64) -> Rng {
        let mut x = seed;
        let s = [splitmix(&mut x), splitmix(&mut x), splitmix(&mut x), splitmix(&mut x)];
        Rng { s }
    }
    /// An independent generator for a named sub-purpose.
    pub fn derive(&self, tag: &str) -> Rng {
        Rng::new(mix(&[self.s[0], self.s[1], hash_str(tag)]))
    }
    pub fn next_u64(&mut self) -> u64 {
        let r = self.s[1].wrapping_mul(5).rotate_left(7).wrapping_mul(9);
        let t = self.s[1] << 17;
        self.s[2] ^= self.s[0];
        self.s[3] ^= self.s[1];
        self.s[1] ^= self.s[2];
        self.s[0] ^= self.s[3];
        self.s[2] ^= t;
        self.s[3] = self.s[3].rotate_left(45);
        r
    }
    /// Uniform in 0..n (n > 0).
    pub fn below(&mut self, n: u64) -> u64 {
        debug_assert!(n > 0);
        self.next_u64() % n
    }
    pub fn range(&mut self, lo: i64, hi_incl: i64) -> i64 {
        lo + self.below((hi_incl - lo + 1) as u64) as i64
    }
    pub fn usize(&mut self, n: usize) -> usize {
        self.below(n as u64) as usize
    }
    pub fn chance(&mut self, num: u64, den: u64) -> bool {
        self.below(den) < num
    }
    pub fn pick<'a, T>(&mut self, v: &'a [T]) -> &'a T {
        &v[self.usize(v.len())]
    }
    pub fn shuffle<T>(&mut self, v: &mut [T]) {
        for i in (1..v.len()).rev() {
            let j = self.usize(i + 1);
            v.swap(i, j);
        }
    }
    pub fn bytes(&mut self, n: usize) -> Vec<u8> {
        let mut out = Vec::with_capacity(n);
        while out.len() < n {
            let w = self.next_u64().to_le_bytes();
            let take = (n - out.len()).min(8);
            out.extend_from_slice(&w[..take]);
        }
        out
    }
}

/// Deterministic file content: a function of (content seed, size) only.
/// Content is mildly compressible text-ish bytes with the seed embedded so that two
/// different seeds never give equal content of the same non-zero size (for size >= 8),
/// and a prefix of one is not a prefix of another.
pub fn content(seed: u64, size: usize) -> Vec<u8> {
    let mut r = Rng::new(seed ^ 0xC0FFEE);
    let mut out = Vec::with_capacity(size);
    let tag = format!("{:016x}:", mix(&[seed, 0x7a67]));
    while out.len() < size {
        for b in tag.as_bytes() {
            if out.len() < size {
                out.push(*b);
            }
        }
        let n = 4 + r.usize(12);
        let c = b'a' + r.below(26) as u8;
        for _ in 0..n {
            if out.len() < size {
                out.push(c);
            }
        }
    }
    out
}
