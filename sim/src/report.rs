//! Violations, signatures, coverage accounting, known findings, evidence files.

use std::collections::{BTreeMap, BTreeSet, HashSet};

use serde_json::{Value, json};

use crate::sim::{Fault, PanicInfo};

#[derive(Clone, Debug)]
pub struct Violation {
    pub property: String,
    /// which oracle fired, e.g. "restore_equals_snapshot"
    pub oracle: String,
    /// structured discriminator that survives minimisation, e.g. "mode:lost=6000:kind=f"
    pub disc: String,
    /// free text for the human reader; never part of the signature
    pub detail: String,
}

impl Violation {
    pub fn new(property: &str, oracle: &str, disc: impl Into<String>, detail: impl Into<String>) -> Violation {
        Violation {
            property: property.to_string(),
            oracle: oracle.to_string(),
            disc: disc.into(),
            detail: detail.into(),
        }
    }
    pub fn signature(&self) -> String {
        format!("{}/{}/{}", self.property, self.oracle, self.disc)
    }
}

/// Discriminator of a panic: source file plus the message with digits and quoted text
/// removed (line numbers move with every edit; the message class does not).
pub fn panic_disc(p: &PanicInfo) -> String {
    let file = p.file.rsplit("/src/").next().unwrap_or(&p.file);
    let mut msg = String::new();
    let mut in_quote = false;
    // the message class: everything before the first ": " (arguments follow it)
    let head = p.msg.split(": ").next().unwrap_or("");
    for c in head.chars() {
        if c == '"' {
            in_quote = !in_quote;
            continue;
        }
        if in_quote || c.is_ascii_digit() {
            continue;
        }
        msg.push(c);
        if msg.len() >= 48 {
            break;
        }
    }
    format!("panic:{}:{}", file, msg.trim().replace(' ', "_"))
}

/// A violation together with the explicit scenario that reproduces it.
#[derive(Clone, Debug)]
pub struct Found {
    pub violation: Violation,
    pub scenario: Value,
}

#[derive(Default)]
pub struct Acc {
    pub evaluations: u64,
    pub runs: u64,
    pub calls: u64,
    /// storage operations executed: the logical clock of this system
    pub ops: u64,
    pub nontrivial: HashSet<u64>,
    pub states: HashSet<u64>,
    pub traces: HashSet<u64>,
    pub faults: BTreeMap<String, u64>,
    pub reach: BTreeMap<String, u64>,
    pub samples: Vec<Value>,
    pub backends: BTreeMap<String, u64>,
    pub harness_errors: Vec<String>,
    pub exhaustive_within_scenario: bool,
}

impl Acc {
    pub fn hit(&mut self, probe: &str) {
        *self.reach.entry(probe.to_string()).or_default() += 1;
    }
    pub fn hit_n(&mut self, probe: &str, n: u64) {
        *self.reach.entry(probe.to_string()).or_default() += n;
    }
    pub fn fault(&mut self, f: &Fault) {
        let k = match f {
            Fault::CrashBefore => "crash_before".to_string(),
            Fault::CrashEmpty => "crash_leaving_empty_file".to_string(),
            Fault::Fail(k) => format!("fail_{k:?}"),
        };
        *self.faults.entry(k).or_default() += 1;
    }
    pub fn faults_of(&mut self, fired: &[(u32, Fault)]) {
        for (_, f) in fired {
            self.fault(f);
        }
    }
    pub fn sample(&mut self, v: Value) {
        if self.samples.len() < 3 {
            self.samples.push(v);
        }
    }
    pub fn merge(&mut self, o: Acc) {
        self.evaluations += o.evaluations;
        self.runs += o.runs;
        self.calls += o.calls;
        self.ops += o.ops;
        self.nontrivial.extend(o.nontrivial);
        self.states.extend(o.states);
        self.traces.extend(o.traces);
        for (k, v) in o.faults {
            *self.faults.entry(k).or_default() += v;
        }
        for (k, v) in o.reach {
            *self.reach.entry(k).or_default() += v;
        }
        for (k, v) in o.backends {
            *self.backends.entry(k).or_default() += v;
        }
        for s in o.samples {
            self.sample(s);
        }
        self.harness_errors.extend(o.harness_errors);
        self.exhaustive_within_scenario |= o.exhaustive_within_scenario;
    }
}

#[derive(Clone, Debug)]
pub struct KnownFinding {
    pub property: String,
    pub signature: String,
    pub description: String,
}

pub fn load_known_findings(path: &std::path::Path) -> Result<Vec<KnownFinding>, String> {
    let Ok(text) = std::fs::read_to_string(path) else {
        return Ok(vec![]);
    };
    let v: Value = serde_json::from_str(&text).map_err(|e| format!("known findings file: {e}"))?;
    let mut out = Vec::new();
    for f in v.get("findings").and_then(|x| x.as_array()).cloned().unwrap_or_default() {
        out.push(KnownFinding {
            property: f["property"].as_str().unwrap_or("").to_string(),
            signature: f["signature"].as_str().unwrap_or("").to_string(),
            description: f["description"].as_str().unwrap_or("").to_string(),
        });
    }
    Ok(out)
}

pub struct CheckInfo {
    pub id: &'static str,
    pub level: &'static str,
    pub rule: &'static str,
    pub assumptions: &'static [&'static str],
    pub real: &'static [&'static str],
    pub stub: &'static [&'static str],
}

#[allow(clippy::too_many_arguments)]
pub fn write_evidence(
    dir: &std::path::Path,
    info: &CheckInfo,
    tier: &str,
    seed: u64,
    acc: &Acc,
    wall_s: f64,
    violations: usize,
    known: &BTreeSet<String>,
    stuck_probes: &[String],
) -> std::io::Result<()> {
    std::fs::create_dir_all(dir)?;
    let runs_per_hour = if wall_s > 0.0 {
        (acc.runs as f64 / wall_s * 3600.0) as u64
    } else {
        0
    };
    let mut samples = acc.samples.clone();
    if samples.is_empty() {
        samples.push(json!("no sample recorded"));
    }
    let ev = json!({
        "property_id": info.id,
        "tier": tier,
        "seed": seed,
        "level": info.level,
        "coverage": {
            "evaluations": acc.evaluations,
            "distinct_nontrivial": acc.nontrivial.len(),
            "rule": info.rule,
            "samples": samples,
            "runs": acc.runs,
            "runs_per_hour": runs_per_hour,
            "simulated_calls": acc.calls,
            "logical_time_storage_ops": acc.ops,
            "distinct_states": acc.states.len(),
            "distinct_traces": acc.traces.len(),
            "faults_fired": acc.faults,
            "reach": acc.reach,
            "probes_stuck_at_zero": stuck_probes,
            "backend_mix": acc.backends,
            "components": {"real": info.real, "stub": info.stub},
            "exhaustive": false,
            "exhaustive_within_each_sampled_scenario": acc.exhaustive_within_scenario && acc.reach.get("enumeration_capped").copied().unwrap_or(0) == 0,
            "known_findings_seen": known.iter().collect::<Vec<_>>(),
        },
        "assumptions": info.assumptions,
        "wall_s": wall_s,
        "violations": violations,
    });
    // The latest run of each tier is also kept beside the evidence directory, and the
    // evidence of this run points at the latest run of the other tier (clearly labelled as
    // another run: none of its numbers is counted here).
    let mut ev = ev;
    if let Some(parent) = dir.parent() {
        let tdir = parent.join("evidence_by_tier");
        let _ = std::fs::create_dir_all(&tdir);
        let other = if tier == "quick" { "thorough" } else { "quick" };
        if let Ok(bytes) = std::fs::read(tdir.join(format!("{}.{other}.json", info.id))) {
            if let Ok(o) = serde_json::from_slice::<serde_json::Value>(&bytes) {
                ev["coverage"]["latest_run_of_other_tier"] = json!({
                    "note": "a different, earlier run; kept in evidence_by_tier/",
                    "tier": o["tier"], "seed": o["seed"], "wall_s": o["wall_s"], "violations": o["violations"],
                    "runs": o["coverage"]["runs"], "evaluations": o["coverage"]["evaluations"],
                    "distinct_nontrivial": o["coverage"]["distinct_nontrivial"],
                    "faults_fired": o["coverage"]["faults_fired"],
                    "logical_time_storage_ops": o["coverage"]["logical_time_storage_ops"],
                });
            }
        }
        let _ = std::fs::write(tdir.join(format!("{}.{tier}.json", info.id)), serde_json::to_vec_pretty(&ev).unwrap());
    }
    let path = dir.join(format!("{}.json", info.id));
    let tmp = dir.join(format!("{}.json.tmp", info.id));
    std::fs::write(&tmp, serde_json::to_vec_pretty(&ev).unwrap())?;
    std::fs::rename(tmp, path)
}
