//! Explicit, replayable scenarios (the replay file is exactly this, as JSON), the generic
//! history generator, and shared oracle helpers.

use std::collections::BTreeMap;

use serde::{Deserialize, Serialize};
use serde_json::Value;

use crate::genr::{Gen, GenCfg, draw_opts};
use crate::report::{Acc, Violation, panic_disc};
use crate::rng::Rng;
use crate::sim::{Fault, FaultPlan, Outcome};
use crate::store::ListOrder;
use crate::tree::{self, CmpOpts, EditOp, Meta, Mismatch, Snap, TreeModel};
use crate::world::{BackupRun, DeleteRun, Env, Opts, RestoreRun, RestoreSpec, VState, World};

#[derive(Clone, Debug, PartialEq, Serialize, Deserialize)]
pub enum DamageKind {
    Delete,
    TruncateZero,
    TruncateHalf,
    Garbage,
    BitFlip,
    /// Structured garbage: an index hunk that still decompresses and parses as JSON, with one
    /// field of one entry set to an extreme value (reaches the code behind the decoder, which
    /// random bytes almost never do).
    HunkField,
    /// Not damage: rewrite a BANDTAIL the way Conserve 0.6.0-0.6.3 wrote it, without
    /// `index_hunk_count` (a legal state of format 0.6).
    LegacyTail,
}

#[derive(Clone, Debug, PartialEq, Serialize, Deserialize)]
pub enum Step {
    Edit(Vec<EditOp>),
    Backup {
        opts: Opts,
        #[serde(default)]
        plan: FaultPlan,
    },
    Delete {
        bands: Vec<u32>,
        #[serde(default)]
        dry_run: bool,
        #[serde(default)]
        break_lock: bool,
        #[serde(default)]
        plan: FaultPlan,
    },
    Damage {
        path: String,
        kind: DamageKind,
        /// seed for garbage bytes / bit position
        #[serde(default)]
        arg: u64,
    },
    /// Bands written directly in format 0.6 by the harness (state injection for C08).
    InjectBands(Vec<InjBand>),
    /// Edits to the alternative source tree (two racing backups of different sources).
    EditAlt(Vec<EditOp>),
    /// Concurrent invocations under a schedule.
    Race {
        actors: Vec<crate::world::ActorSpec>,
        schedule: crate::sim::Schedule,
    },
}

#[derive(Clone, Debug, PartialEq, Serialize, Deserialize)]
pub struct InjEntry {
    pub apath: String,
    /// "File" | "Dir" | "Symlink"
    pub kind: String,
    /// recorded as mtime: tells which band an entry came from
    pub marker: i64,
}

#[derive(Clone, Debug, PartialEq, Serialize, Deserialize)]
pub struct InjBand {
    pub id: u32,
    pub head: bool,
    /// Some(n): a BANDTAIL claiming n hunks
    pub tail: Option<u64>,
    /// hunks in order; `None` = that hunk file is missing
    pub hunks: Vec<Option<Vec<InjEntry>>>,
    /// how the tail (if any) is written: 0 with the hunk count, 1 as versions before 0.6.4
    /// wrote it (no count), 2 zero-length (a kill between creating and filling the file:
    /// the file exists, so the version counts as complete)
    #[serde(default)]
    pub tail_form: u8,
}

pub fn inject_bands(w: &World, bands: &[InjBand]) {
    w.with_store(|m| {
        for b in bands {
            let dir = crate::format::band_dir_name(b.id);
            m.put_dir(&format!("{dir}/i"));
            if b.head {
                m.put_file(&format!("{dir}/BANDHEAD"), &br#"{"start_time":1700000000,"band_format_version":"0.6.3"}
"#[..]);
            }
            if let Some(n) = b.tail {
                let bytes = match b.tail_form {
                    1 => b"{\"end_time\":1700000001}\n".to_vec(),
                    2 => Vec::new(),
                    _ => format!("{{\"end_time\":1700000001,\"index_hunk_count\":{n}}}\n").into_bytes(),
                };
                m.put_file(&format!("{dir}/BANDTAIL"), bytes);
            }
            for (i, h) in b.hunks.iter().enumerate() {
                let Some(entries) = h else { continue };
                let list: Vec<Value> = entries
                    .iter()
                    .map(|e| {
                        let mut v = serde_json::json!({"apath": e.apath, "kind": e.kind, "mtime": e.marker, "unix_mode": 420});
                        if e.kind == "Symlink" {
                            v["target"] = serde_json::json!("t");
                        }
                        v
                    })
                    .collect();
                let raw = serde_json::to_vec(&list).unwrap();
                m.put_file(&crate::format::hunk_path(b.id, i as u32), crate::format::snappy_compress(&raw));
            }
        }
    });
}

#[derive(Clone, Debug, PartialEq, Serialize, Deserialize)]
pub struct Scenario {
    pub check: String,
    pub seed: u64,
    pub env: Env,
    pub root_meta: Meta,
    pub steps: Vec<Step>,
    #[serde(default)]
    pub params: Value,
}

impl Scenario {
    pub fn to_value(&self) -> Value {
        serde_json::to_value(self).unwrap()
    }
    pub fn compact(&self) -> Value {
        // a short human-readable rendering for evidence samples
        let steps: Vec<String> = self
            .steps
            .iter()
            .map(|s| match s {
                Step::Edit(es) => format!(
                    "edit[{}]",
                    es.iter()
                        .map(|e| match e {
                            EditOp::Put { path, node } => match &node.kind {
                                tree::NodeKind::File { size, .. } => format!(
                                    "file {path} {size}B mode={:o} mtime={}.{:09}",
                                    node.meta.mode, node.meta.mtime.0, node.meta.mtime.1
                                ),
                                tree::NodeKind::Dir => format!("dir {path} mode={:o}", node.meta.mode),
                                tree::NodeKind::Symlink { target } => format!("link {path}->{target}"),
                            },
                            EditOp::Remove { path } => format!("rm {path}"),
                            EditOp::Rename { from, to } => format!("mv {from} {to}"),
                            EditOp::SetMeta { path, mode, mtime, owner } => {
                                format!("meta {path} mode={mode:?} mtime={mtime:?} owner={owner:?}")
                            }
                            EditOp::BulkEmptyFiles { dir, prefix, count, .. } => format!("{count} empty files {dir}/{prefix}NNNNN"),
                            EditOp::RawNames { dir, names, kind } => format!("{} non-UTF-8 names (kind {kind}) in {dir}", names.len()),
                        })
                        .collect::<Vec<_>>()
                        .join("; ")
                ),
                Step::Backup { opts, plan } => format!(
                    "backup(hunk={},block={},cap={},owner={}{}{})",
                    opts.max_entries_per_hunk,
                    opts.max_block_size,
                    opts.small_file_cap,
                    opts.owner,
                    if opts.exclude.is_empty() { String::new() } else { format!(",exclude={:?}", opts.exclude) },
                    if plan.is_faultless() { String::new() } else { format!(",faults={:?}{:?}", plan.at, plan.fail_each) }
                ),
                Step::Delete { bands, dry_run, break_lock, plan } => format!(
                    "delete({bands:?},dry_run={dry_run},break_lock={break_lock}{})",
                    if plan.is_faultless() { String::new() } else { format!(",faults={:?}", plan.at) }
                ),
                Step::Damage { path, kind, .. } => format!("damage({path},{kind:?})"),
                Step::EditAlt(es) => format!("edit-alt[{} edits]", es.len()),
                Step::InjectBands(bs) => format!(
                    "inject[{}]",
                    bs.iter()
                        .map(|b| format!(
                            "b{:04}:{}{}:hunks={:?}",
                            b.id,
                            if b.head { "head" } else { "nohead" },
                            if b.tail.is_some() { "+tail" } else { "" },
                            b.hunks.iter().map(|h| h.as_ref().map(|v| v.iter().map(|e| e.apath.clone()).collect::<Vec<_>>())).collect::<Vec<_>>()
                        ))
                        .collect::<Vec<_>>()
                        .join("; ")
                ),
                Step::Race { actors, schedule } => format!(
                    "race({}; {})",
                    actors
                        .iter()
                        .map(|a| match a {
                            crate::world::ActorSpec::Backup { alt_src, .. } => format!("backup{}", if *alt_src { "(alt)" } else { "" }),
                            crate::world::ActorSpec::Delete { bands, .. } => format!("delete{bands:?}"),
                        })
                        .collect::<Vec<_>>()
                        .join(" || "),
                    match schedule {
                        crate::sim::Schedule::Explicit(v) => format!("explicit {} decisions", v.len()),
                        crate::sim::Schedule::Random(s) => format!("random {s}"),
                        crate::sim::Schedule::Preempt { first, points } => format!("preempt first={first} points={points:?}"),
                    }
                ),
            })
            .collect();
        serde_json::json!({"check": self.check, "seed": self.seed, "env": self.env, "steps": steps, "params": self.params})
    }
}

pub fn draw_env(r: &mut Rng) -> Env {
    Env {
        list_order: match r.below(3) {
            0 => ListOrder::Sorted,
            1 => ListOrder::Reversed,
            _ => ListOrder::Shuffled(r.next_u64()),
        },
        delay: if r.chance(1, 3) { Some((r.next_u64(), 200)) } else { None },
        local_backend: false,
        drain: true,
    }
}

// ---------------------------------------------------------------------------------------
// Executing steps

pub enum StepResult {
    Edited(usize),
    Backup(BackupRun),
    Delete(DeleteRun),
    Damaged(bool),
    Race(crate::world::RaceRun),
}

pub fn apply_damage(w: &World, path: &str, kind: &DamageKind, arg: u64) -> bool {
    w.with_store(|m| {
        let Some(old) = m.file(path).cloned() else {
            return false;
        };
        match kind {
            DamageKind::Delete => {
                m.nodes.remove(path);
            }
            DamageKind::TruncateZero => m.put_file(path, bytes::Bytes::new()),
            DamageKind::TruncateHalf => m.put_file(path, old.slice(..old.len() / 2)),
            DamageKind::Garbage => {
                let mut r = Rng::new(arg ^ 0x6a7b);
                let n = old.len().max(8);
                m.put_file(path, r.bytes(n));
            }
            DamageKind::HunkField => {
                let Ok(raw) = crate::format::snappy_decompress(&old) else { return false };
                let Ok(mut v) = serde_json::from_slice::<Value>(&raw) else { return false };
                let Some(list) = v.as_array_mut() else { return false };
                if list.is_empty() {
                    return false;
                }
                let idx = (arg % list.len() as u64) as usize;
                let e = &mut list[idx];
                let has_addrs = e.get("addrs").and_then(|a| a.as_array()).map(|a| !a.is_empty()).unwrap_or(false);
                match (arg >> 16) % 14 {
                    10 => e["apath"] = serde_json::json!("//"),
                    11 => e["apath"] = serde_json::json!("/../escaped-by-index"),
                    12 => e["apath"] = serde_json::json!("no-leading-slash"),
                    13 => e["apath"] = serde_json::json!(""),
                    0 => e["mtime_nanos"] = serde_json::json!(1_000_000_000u64),
                    1 => e["mtime_nanos"] = serde_json::json!(4_294_967_295u64),
                    2 => e["mtime"] = serde_json::json!(i64::MAX),
                    3 => e["mtime"] = serde_json::json!(i64::MIN),
                    4 if has_addrs => e["addrs"][0]["start"] = serde_json::json!(u64::MAX),
                    5 if has_addrs => e["addrs"][0]["len"] = serde_json::json!(u64::MAX),
                    6 if has_addrs => e["addrs"][0]["len"] = serde_json::json!(1u64 << 40),
                    7 => e["kind"] = serde_json::json!("Unknown"),
                    8 => e["unix_mode"] = serde_json::json!(4_294_967_295u64),
                    _ => e["mtime_nanos"] = serde_json::json!(999_999_999u64 + 2),
                }
                m.put_file(path, crate::format::snappy_compress(&serde_json::to_vec(&v).unwrap()));
            }
            DamageKind::LegacyTail => {
                let Ok(mut v) = serde_json::from_slice::<Value>(&old) else { return false };
                let Some(obj) = v.as_object_mut() else { return false };
                if obj.remove("index_hunk_count").is_none() {
                    return false;
                }
                let mut bytes = serde_json::to_vec(&v).unwrap();
                bytes.push(b'\n');
                m.put_file(path, bytes);
            }
            DamageKind::BitFlip => {
                if old.is_empty() {
                    return false;
                }
                let mut v = old.to_vec();
                let bit = (arg % (v.len() as u64 * 8)) as usize;
                v[bit / 8] ^= 1 << (bit % 8);
                m.put_file(path, v);
            }
        }
        true
    })
}

pub fn exec_step(w: &mut World, step: &Step, acc: &mut Acc, want_changes: bool) -> Result<StepResult, String> {
    match step {
        Step::Edit(es) => {
            let n = w.apply_edits(es).map_err(|e| format!("apply_edits: {e}"))?;
            Ok(StepResult::Edited(n))
        }
        Step::Backup { opts, plan } => {
            let r = w.backup(opts, plan.clone(), want_changes);
            acc.calls += 1;
            acc.ops += r.call.ops as u64;
            acc.faults_of(&r.call.fired);
            if r.call.delays > 0 {
                acc.hit_n("ops_delayed", r.call.delays as u64);
            }
            Ok(StepResult::Backup(r))
        }
        Step::Delete { bands, dry_run, break_lock, plan } => {
            let r = w.delete(bands, *dry_run, *break_lock, plan.clone());
            acc.calls += 1;
            acc.ops += r.call.ops as u64;
            acc.faults_of(&r.call.fired);
            Ok(StepResult::Delete(r))
        }
        Step::Damage { path, kind, arg } => Ok(StepResult::Damaged(apply_damage(w, path, kind, *arg))),
        Step::InjectBands(bs) => {
            inject_bands(w, bs);
            Ok(StepResult::Edited(bs.len()))
        }
        Step::EditAlt(es) => {
            let rm = w.tree.nodes.get("/").unwrap().meta;
            w.apply_alt_edits(rm, es).map_err(|e| format!("apply_alt_edits: {e}"))?;
            Ok(StepResult::Edited(es.len()))
        }
        Step::Race { actors, schedule } => {
            let r = w.race(actors, schedule);
            acc.calls += r.actors.len() as u64;
            acc.ops += r.actors.iter().map(|a| a.ops as u64).sum::<u64>();
            Ok(StepResult::Race(r))
        }
    }
}

// ---------------------------------------------------------------------------------------
// Shared oracle helpers

pub fn mismatch_disc(m: &Mismatch, expected: Option<&tree::SNode>) -> String {
    let kind = expected.map(|e| e.kind).unwrap_or('?');
    match m.field {
        "mode" => {
            // detail carries lost bits; recompute from text is brittle, so classify coarsely
            let lost = m
                .detail
                .rsplit("lost=")
                .next()
                .and_then(|s| u32::from_str_radix(s.trim(), 8).ok())
                .unwrap_or(0);
            if lost != 0 && lost & !0o6000 == 0 {
                format!("mode:lost_setuid_setgid:{kind}")
            } else {
                format!("mode:other:{kind}")
            }
        }
        "mtime" => {
            let neg = expected.map(|e| e.mtime.0 < 0).unwrap_or(false);
            let frac = expected.map(|e| e.mtime.1 != 0).unwrap_or(false);
            format!(
                "mtime:{}:{}:{kind}",
                if neg { "pre_epoch" } else { "post_epoch" },
                if frac { "fraction" } else { "whole" }
            )
        }
        "content" => format!("content:{}", m.detail.split(' ').next().unwrap_or("")),
        f => format!("{f}:{kind}"),
    }
}

pub fn outcome_disc<T>(o: &Outcome<Result<T, crate::world::ErrInfo>>) -> String {
    match o {
        Outcome::Done(Ok(_)) => "ok".into(),
        Outcome::Done(Err(e)) => format!("error:{}", e.variant),
        Outcome::Crashed => "crashed".into(),
        Outcome::Hung => "hung".into(),
        Outcome::Panicked(p) => panic_disc(p),
    }
}

pub fn outcome_text<T>(o: &Outcome<Result<T, crate::world::ErrInfo>>) -> String {
    match o {
        Outcome::Done(Ok(_)) => "ok".into(),
        Outcome::Done(Err(e)) => format!("error: {}", e.text),
        Outcome::Crashed => "crashed".into(),
        Outcome::Hung => "hung (operation budget exhausted)".into(),
        Outcome::Panicked(p) => format!("PANIC at {}:{}: {}", p.file, p.line, p.msg),
    }
}

/// Restore `band` (None = latest complete) and require a clean result equal to `expected`.
pub fn expect_restore_equals(
    w: &mut World,
    acc: &mut Acc,
    prop: &str,
    band: Option<u32>,
    expected: &Snap,
    owner: bool,
    what: &str,
) -> Vec<Violation> {
    let r = w.restore(&RestoreSpec {
        band,
        ..Default::default()
    });
    acc.calls += 1;
    acc.ops += r.call.ops as u64;
    restore_violations(prop, &r, expected, owner, what)
}

pub fn restore_violations(prop: &str, r: &RestoreRun, expected: &Snap, owner: bool, what: &str) -> Vec<Violation> {
    let mut out = Vec::new();
    if !matches!(r.outcome, Outcome::Done(Ok(()))) {
        out.push(Violation::new(
            prop,
            "restore_completes",
            outcome_disc(&r.outcome),
            format!("{what}: restore did not succeed: {}", outcome_text(&r.outcome)),
        ));
        return out;
    }
    if let Some(e) = r.errors.first() {
        out.push(Violation::new(
            prop,
            "restore_without_errors",
            format!("monitor_error:{}", e.variant),
            format!("{what}: restore reported {} error(s), first: {}", r.errors.len(), e.text),
        ));
    }
    let mm = tree::compare_snaps(
        expected,
        &r.snap,
        CmpOpts {
            owner,
            dir_mtime: true,
            root_meta: true,
        },
    );
    // one violation per distinct discriminator, to keep reports short
    let mut seen: BTreeMap<String, ()> = BTreeMap::new();
    for m in &mm {
        // a file whose restore was reported as failed has no meaningful metadata
        if !r.errors.is_empty() && matches!(m.field, "mtime" | "mode" | "uid" | "gid") {
            continue;
        }
        let disc = mismatch_disc(m, expected.get(&m.path).or(r.snap.get(&m.path)));
        if seen.insert(disc.clone(), ()).is_none() {
            out.push(Violation::new(
                prop,
                "restore_equals_snapshot",
                disc,
                format!("{what}: {} {}: {}", m.path, m.field, m.detail),
            ));
        }
    }
    out
}

// ---------------------------------------------------------------------------------------
// History generation (the alphabet of C02, reused by most checks)

pub struct HistoryCfg {
    pub min_steps: usize,
    pub max_steps: usize,
    pub interrupts: bool,
    pub crash_empty: bool,
    pub deletes: bool,
    pub thorough: bool,
    pub small_blocks: bool,
}

/// Generate a history by *simulating the model only*: which bands exist is predicted with
/// the same simple rules Conserve documents (next id = newest + 1); the real execution later
/// never depends on the prediction being right (steps naming absent bands are just refused).
pub fn gen_history(r: &mut Rng, check: &str, seed: u64, hc: &HistoryCfg) -> Scenario {
    let env = draw_env(r);
    let base_opts = if hc.small_blocks {
        crate::genr::draw_opts_small_blocks(r)
    } else {
        draw_opts(r)
    };
    let cfg = GenCfg::draw(r, &base_opts, hc.thorough);
    let mut g = Gen::new(r.derive("gen"));
    let root_meta = g.root_meta(&cfg);
    let mut model = TreeModel::new(root_meta);
    let mut steps = Vec::new();
    let n_steps = hc.min_steps + r.usize(hc.max_steps - hc.min_steps + 1);
    // predicted band ids (approximate; see above)
    let mut bands: Vec<u32> = Vec::new();
    let mut next_band = 0u32;
    let mut last_incomplete = false;
    // always start with some content
    let mut first = g.burst(&model, &cfg, 1 + r.usize(cfg.max_burst));
    for e in &first {
        model.apply(e);
    }
    if r.chance(1, 4) {
        for e in g.extension_sibling_scaffold(&model, &cfg) {
            if model.apply(&e) {
                first.push(e);
            }
        }
    }
    steps.push(Step::Edit(first));
    while steps.len() < n_steps {
        let roll = r.below(100);
        if roll < 35 {
            let n = 1 + r.usize(cfg.max_burst.min(8));
            let b = g.burst(&model, &cfg, n);
            for e in &b {
                model.apply(e);
            }
            if !b.is_empty() {
                steps.push(Step::Edit(b));
            }
        } else if roll < 75 {
            let opts = if r.chance(1, 3) {
                let mut o = if hc.small_blocks { crate::genr::draw_opts_small_blocks(r) } else { draw_opts(r) };
                if cfg.big_twins && o.max_block_size < 4096 {
                    // megabyte files in 7-byte blocks are legal but cost hundreds of thousands
                    // of operations per backup; keep such histories affordable
                    o.max_block_size = base_opts.max_block_size;
                }
                o
            } else {
                base_opts.clone()
            };
            let plan = if hc.interrupts && r.chance(1, 4) {
                let k = r.below(60) as u32;
                let f = if hc.crash_empty && r.chance(1, 3) { Fault::CrashEmpty } else { Fault::CrashBefore };
                last_incomplete = true;
                FaultPlan::single(k, f)
            } else {
                last_incomplete = false;
                FaultPlan::none()
            };
            steps.push(Step::Backup { opts, plan });
            bands.push(next_band);
            next_band += 1;
        } else if hc.deletes && !bands.is_empty() {
            let mut sel: Vec<u32> = bands.iter().copied().filter(|_| r.chance(1, 3)).collect();
            if r.chance(1, 5) {
                sel.clear(); // pure gc
            }
            let dry_run = r.chance(1, 6);
            let plan = if hc.interrupts && r.chance(1, 7) {
                FaultPlan::single(r.below(40) as u32, Fault::CrashBefore)
            } else {
                FaultPlan::none()
            };
            steps.push(Step::Delete {
                bands: sel.clone(),
                dry_run,
                break_lock: r.chance(1, 4),
                plan,
            });
            if !dry_run && !last_incomplete {
                bands.retain(|b| !sel.contains(b));
            }
        }
    }
    Scenario {
        check: check.to_string(),
        seed,
        env,
        root_meta,
        steps,
        params: Value::Null,
    }
}

/// More index hunks than one index subdirectory holds (10 000): only reachable with a tree
/// of that many entries, so it is a scenario of its own, run for one seed in about 1 500.
pub fn many_hunks(check: &str, seed: u64) -> Scenario {
    use crate::tree::{EditOp, Meta};
    let meta = Meta { mode: 0o644, mtime: (1_600_000_000, 0), uid: 0, gid: 0 };
    let mut opts = crate::world::Opts::default();
    opts.max_entries_per_hunk = 1;
    Scenario {
        check: check.into(),
        seed,
        env: crate::world::Env::default(),
        root_meta: Meta { mode: 0o755, mtime: (1_600_000_000, 0), uid: 0, gid: 0 },
        steps: vec![
            Step::Edit(vec![EditOp::BulkEmptyFiles { dir: "/".into(), prefix: "f".into(), count: 10_003 + (seed % 5) as u32, meta }]),
            Step::Backup { opts, plan: crate::sim::FaultPlan::none() },
        ],
        params: serde_json::json!({"many_hunks": true}),
    }
}

/// Archives written by Conserve 0.6.0-0.6.3 have tails without `index_hunk_count`. After some
/// of the completed backups of a history, rewrite the tail that way (band ids are predicted as
/// in `gen_history`; a step naming a tail that does not exist does nothing).
pub fn sprinkle_legacy_tails(r: &mut Rng, sc: &mut Scenario) {
    let mut out = Vec::new();
    let mut next = 0u32;
    for s in sc.steps.drain(..) {
        let faultless_backup = matches!(&s, Step::Backup { plan, .. } if plan.is_faultless());
        let is_backup = matches!(&s, Step::Backup { .. });
        out.push(s);
        if is_backup {
            if faultless_backup && r.chance(1, 3) {
                out.push(Step::Damage { path: format!("{}/BANDTAIL", crate::format::band_dir_name(next)), kind: DamageKind::LegacyTail, arg: 0 });
            }
            next += 1;
        }
    }
    sc.steps = out;
}

/// Bands the archive model holds in each state, for evidence samples.
pub fn model_summary(w: &World) -> String {
    w.versions
        .iter()
        .map(|(k, v)| {
            format!(
                "b{k:04}:{}",
                match v.state {
                    VState::Complete => "complete",
                    VState::Interrupted => "interrupted",
                    VState::Deleted => "deleted",
                }
            )
        })
        .collect::<Vec<_>>()
        .join(",")
}
