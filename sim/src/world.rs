//! One simulated world: a store, a source tree on tmpfs with its model, the archive model,
//! and typed wrappers that run REAL Conserve operations as simulated calls.

use std::collections::BTreeMap;
use std::path::{Path, PathBuf};
use std::sync::atomic::{AtomicU64, Ordering::SeqCst};
use std::sync::{Arc, Mutex};

use conserve::monitor::test::TestMonitor;
use conserve::{
    Apath, Archive, BackupOptions, BandId, BandSelectionPolicy, DeleteOptions, Exclude,
    RestoreOptions, ValidateOptions,
};
use serde::{Deserialize, Serialize};

use crate::format::{self, ArchiveView};
use crate::sim::{CallOpts, CallResult, FaultPlan, Outcome, SimCore, StoreBackend, run_call};
use crate::store::{ListOrder, MemStore};
use crate::tree::{self, EditOp, Meta, Snap, TreeModel};

#[derive(Clone, Debug, PartialEq, Serialize, Deserialize)]
pub struct Opts {
    pub max_entries_per_hunk: usize,
    pub max_block_size: usize,
    pub small_file_cap: u64,
    pub owner: bool,
    #[serde(default)]
    pub exclude: Vec<String>,
}

impl Default for Opts {
    fn default() -> Self {
        Opts {
            max_entries_per_hunk: 100_000,
            max_block_size: 20 << 20,
            small_file_cap: 1 << 20,
            owner: true,
            exclude: vec![],
        }
    }
}

#[derive(Clone, Debug, PartialEq, Serialize, Deserialize)]
pub struct Env {
    pub list_order: ListOrder,
    /// (seed, per mille) of operations that yield a few extra times before completing
    pub delay: Option<(u64, u32)>,
    pub local_backend: bool,
    /// let spawned cleanup tasks run before a simulated process exits
    pub drain: bool,
}

impl Default for Env {
    fn default() -> Self {
        Env {
            list_order: ListOrder::Sorted,
            delay: None,
            local_backend: false,
            drain: true,
        }
    }
}

#[derive(Clone, Debug, PartialEq, Eq)]
pub struct ErrInfo {
    /// enum variant name, e.g. "BlockMissing"
    pub variant: String,
    pub text: String,
}

pub fn err_info(e: &conserve::Error) -> ErrInfo {
    let dbg = format!("{e:?}");
    let variant: String = dbg
        .chars()
        .take_while(|c| c.is_ascii_alphanumeric() || *c == '_')
        .collect();
    ErrInfo {
        variant,
        text: format!("{e} [{dbg}]"),
    }
}

static SCRATCH_COUNTER: AtomicU64 = AtomicU64::new(0);

pub fn scratch_base() -> PathBuf {
    let base = if Path::new("/dev/shm").is_dir() {
        PathBuf::from("/dev/shm")
    } else {
        std::env::temp_dir()
    };
    base.join(format!("verif-sim-{}", std::process::id()))
}

/// A private scratch directory, removed on drop.
pub struct Scratch {
    pub path: PathBuf,
}

impl Scratch {
    pub fn new() -> Scratch {
        let n = SCRATCH_COUNTER.fetch_add(1, SeqCst);
        let path = scratch_base().join(format!("w{n}"));
        std::fs::create_dir_all(&path).expect("create scratch dir");
        Scratch { path }
    }
}

impl Drop for Scratch {
    fn drop(&mut self) {
        let _ = std::fs::remove_dir_all(&self.path);
    }
}

#[derive(Clone, Debug, PartialEq, Eq)]
pub enum VState {
    Complete,
    /// a band directory exists but no tail
    Interrupted,
    Deleted,
}

#[derive(Clone, Debug)]
pub struct VersionModel {
    /// What the source held when the backup of this version started.
    pub snap: Arc<Snap>,
    pub opts: Opts,
    pub state: VState,
}

/// A second, independent source tree (for two backups racing with different sources).
#[derive(Clone)]
pub struct AltTree {
    pub path: PathBuf,
    pub tree: TreeModel,
    pub snap: Arc<Snap>,
}

#[derive(Clone, Debug, PartialEq, Serialize, Deserialize)]
pub enum ActorSpec {
    Backup {
        opts: Opts,
        /// back up the alternative source tree instead of the main one
        #[serde(default)]
        alt_src: bool,
    },
    Delete {
        bands: Vec<u32>,
        #[serde(default)]
        dry_run: bool,
        #[serde(default)]
        break_lock: bool,
    },
}

#[derive(Debug)]
pub enum CallOut {
    Backup(Result<conserve::BackupStats, ErrInfo>),
    Delete(Result<conserve::DeleteStats, ErrInfo>),
}

impl CallOut {
    pub fn is_ok(&self) -> bool {
        matches!(self, CallOut::Backup(Ok(_)) | CallOut::Delete(Ok(_)))
    }
    pub fn err(&self) -> Option<&ErrInfo> {
        match self {
            CallOut::Backup(Err(e)) | CallOut::Delete(Err(e)) => Some(e),
            _ => None,
        }
    }
}

pub struct ActorRun {
    pub spec: ActorSpec,
    pub outcome: Outcome<CallOut>,
    pub errors: Vec<ErrInfo>,
    pub ops: u32,
    /// bands whose BANDHEAD this actor wrote successfully
    pub bands_created: Vec<u32>,
}

pub struct RaceRun {
    pub actors: Vec<ActorRun>,
    pub trace: Vec<u32>,
    pub preemptions: u32,
    pub log_from: usize,
}

pub struct World {
    pub alt: Option<AltTree>,
    pub core: Arc<SimCore>,
    pub scratch: Arc<Scratch>,
    pub src: PathBuf,
    pub tree: TreeModel,
    /// Walker snapshot of `src` after the last edit burst.
    pub snap: Arc<Snap>,
    pub versions: BTreeMap<u32, VersionModel>,
    pub env: Env,
    out_counter: u64,
    fork_counter: Arc<AtomicU64>,
    fork_id: u64,
}

pub struct BackupRun {
    pub outcome: Outcome<Result<conserve::BackupStats, ErrInfo>>,
    pub errors: Vec<ErrInfo>,
    pub call: CallMeta,
    /// band directory created by this call, if any
    pub new_band: Option<u32>,
    /// (sigil, apath) from the change callback
    pub changes: Vec<(char, String)>,
}

#[derive(Clone, Debug)]
pub struct CallMeta {
    pub ops: u32,
    pub fired: Vec<(u32, crate::sim::Fault)>,
    pub delays: u32,
    pub log_from: usize,
    pub log_to: usize,
}

impl CallMeta {
    fn of<T>(c: &CallResult<T>) -> CallMeta {
        CallMeta {
            ops: c.ops,
            fired: c.fired.clone(),
            delays: c.delays,
            log_from: c.log_from,
            log_to: c.log_to,
        }
    }
}

impl BackupRun {
    /// "Complete success" as C04 defines it.
    pub fn clean_success(&self) -> bool {
        matches!(&self.outcome, Outcome::Done(Ok(s)) if s.errors == 0) && self.errors.is_empty()
    }
    pub fn returned_ok(&self) -> bool {
        matches!(&self.outcome, Outcome::Done(Ok(_)))
    }
}

pub struct RestoreRun {
    pub outcome: Outcome<Result<(), ErrInfo>>,
    pub errors: Vec<ErrInfo>,
    pub snap: Snap,
    pub call: CallMeta,
}

impl RestoreRun {
    pub fn clean(&self) -> bool {
        matches!(&self.outcome, Outcome::Done(Ok(()))) && self.errors.is_empty()
    }
}

pub struct ListRun {
    pub outcome: Outcome<Result<Vec<conserve::IndexEntry>, ErrInfo>>,
    pub errors: Vec<ErrInfo>,
    pub call: CallMeta,
}

pub struct DeleteRun {
    pub outcome: Outcome<Result<conserve::DeleteStats, ErrInfo>>,
    pub errors: Vec<ErrInfo>,
    pub call: CallMeta,
}

pub struct ValidateRun {
    pub outcome: Outcome<Result<(), ErrInfo>>,
    pub errors: Vec<ErrInfo>,
    pub call: CallMeta,
}

#[derive(Clone, Debug)]
pub struct BandInfo {
    pub id: u32,
    pub open_err: Option<ErrInfo>,
    pub is_closed: Option<bool>,
    pub hunk_count: Option<u64>,
}

pub struct VersionsRun {
    pub outcome: Outcome<Result<Vec<BandInfo>, ErrInfo>>,
    pub call: CallMeta,
}

pub fn band_id(n: u32) -> BandId {
    BandId::new(&[n])
}

pub fn band_num(b: BandId) -> u32 {
    format::parse_band_dir(&b.to_string()).unwrap_or(u32::MAX)
}

pub fn mk_exclude(pats: &[String]) -> Exclude {
    if pats.is_empty() {
        Exclude::nothing()
    } else {
        Exclude::from_strings(pats).expect("harness-generated exclude patterns parse")
    }
}

pub fn backup_options(o: &Opts) -> BackupOptions {
    BackupOptions {
        exclude: mk_exclude(&o.exclude),
        max_entries_per_hunk: o.max_entries_per_hunk,
        change_callback: None,
        max_block_size: o.max_block_size,
        small_file_cap: o.small_file_cap,
        owner: o.owner,
    }
}

#[derive(Clone, Debug, Default)]
pub struct RestoreSpec {
    /// None = LatestClosed
    pub band: Option<u32>,
    pub subtree: Option<String>,
    pub exclude: Vec<String>,
    pub overwrite: bool,
}

impl World {
    /// A new world with an initialised (empty) archive and an empty source directory.
    pub fn new(env: Env, root_meta: Meta) -> World {
        let scratch = Arc::new(Scratch::new());
        let src = scratch.path.join("src");
        std::fs::create_dir_all(&src).unwrap();
        let store = if env.local_backend {
            StoreBackend::new_local(&scratch.path.join("archive"), env.list_order)
        } else {
            StoreBackend::Mem(MemStore::new(env.list_order))
        };
        let core = SimCore::new(store);
        let tree = TreeModel::new(root_meta);
        let mut w = World {
            alt: None,
            core,
            scratch,
            src,
            tree,
            snap: Arc::new(Snap::new()),
            versions: BTreeMap::new(),
            env,
            out_counter: 0,
            fork_counter: Arc::new(AtomicU64::new(0)),
            fork_id: 0,
        };
        let r = run_call(&w.core, CallOpts::plain(), |t| async move {
            Archive::create(t).await.map(|_| ())
        });
        match r.outcome {
            Outcome::Done(Ok(())) => {}
            other => panic!("harness: Archive::create failed: {}", other.kind()),
        }
        // settle root metadata and take the first snapshot
        w.apply_edits(&[]).expect("harness: settle empty tree");
        w
    }

    /// Copy of this world sharing the (read-only from now on) source directory but with its
    /// own copy of the store. Only for the in-memory backend.
    pub fn fork(&self) -> World {
        let store = match &*self.core.store.lock().unwrap() {
            StoreBackend::Mem(m) => StoreBackend::Mem(m.clone()),
            StoreBackend::Local { .. } => panic!("harness: fork of a local-disk world"),
        };
        let core = SimCore::new(store);
        core.clock_base.store(self.core.clock_base.load(std::sync::atomic::Ordering::SeqCst), std::sync::atomic::Ordering::SeqCst);
        core.clock_div.store(self.core.clock_div.load(std::sync::atomic::Ordering::SeqCst), std::sync::atomic::Ordering::SeqCst);
        World {
            alt: self.alt.clone(),
            core,
            scratch: self.scratch.clone(),
            src: self.src.clone(),
            tree: self.tree.clone(),
            snap: self.snap.clone(),
            versions: self.versions.clone(),
            env: self.env.clone(),
            out_counter: 0,
            fork_counter: self.fork_counter.clone(),
            fork_id: self.fork_counter.fetch_add(1, SeqCst) + 1,
        }
    }

    pub fn store(&self) -> MemStore {
        self.core.snapshot()
    }

    pub fn view(&self) -> ArchiveView {
        format::decode(&self.store())
    }

    /// Mutate the in-memory store directly (damage, state injection).
    pub fn with_store<R>(&self, f: impl FnOnce(&mut MemStore) -> R) -> R {
        match &mut *self.core.store.lock().unwrap() {
            StoreBackend::Mem(m) => f(m),
            StoreBackend::Local { .. } => panic!("harness: direct store mutation on local disk"),
        }
    }

    /// Apply a burst of edits to model and disk, settle directory times, re-walk.
    pub fn apply_edits(&mut self, edits: &[EditOp]) -> std::io::Result<usize> {
        let mut applied = 0;
        for e in edits {
            if tree::apply_edit(&mut self.tree, &self.src, e)? {
                applied += 1;
            }
        }
        // root metadata
        let root = self.tree.nodes.get("/").unwrap().clone();
        std::os::unix::fs::lchown(&self.src, Some(root.meta.uid), Some(root.meta.gid))?;
        std::fs::set_permissions(
            &self.src,
            <std::fs::Permissions as std::os::unix::fs::PermissionsExt>::from_mode(root.meta.mode),
        )?;
        tree::settle_dir_times(&self.tree, &self.src)?;
        let snap = tree::walk(&self.src)?;
        // The walker is the authority; the model must agree with it or the harness is broken.
        let predicted = tree::model_snap(&self.tree);
        let mm = tree::compare_snaps(&predicted, &snap, tree::CmpOpts::default());
        if !mm.is_empty() {
            return Err(std::io::Error::other(format!(
                "harness: materialised tree differs from model: {:?}",
                &mm[..mm.len().min(3)]
            )));
        }
        self.snap = Arc::new(snap);
        Ok(applied)
    }

    /// Apply edits to the alternative source tree (created on first use).
    pub fn apply_alt_edits(&mut self, root_meta: Meta, edits: &[EditOp]) -> std::io::Result<()> {
        if self.alt.is_none() {
            let path = self.scratch.path.join("src2");
            std::fs::create_dir_all(&path)?;
            self.alt = Some(AltTree {
                path,
                tree: TreeModel::new(root_meta),
                snap: Arc::new(Snap::new()),
            });
        }
        let alt = self.alt.as_mut().unwrap();
        for e in edits {
            tree::apply_edit(&mut alt.tree, &alt.path, e)?;
        }
        let root = alt.tree.nodes.get("/").unwrap().clone();
        std::os::unix::fs::lchown(&alt.path, Some(root.meta.uid), Some(root.meta.gid))?;
        std::fs::set_permissions(
            &alt.path,
            <std::fs::Permissions as std::os::unix::fs::PermissionsExt>::from_mode(root.meta.mode),
        )?;
        tree::settle_dir_times(&alt.tree, &alt.path)?;
        alt.snap = Arc::new(tree::walk(&alt.path)?);
        Ok(())
    }

    /// Run several Conserve invocations as concurrent simulated processes under `schedule`.
    pub fn race(&mut self, specs: &[ActorSpec], schedule: &crate::sim::Schedule) -> RaceRun {
        use crate::sim::{ActorFn, run_concurrent};
        let log_from = self.core.log_len();
        let mut actors: Vec<(CallOpts, ActorFn<CallOut>)> = Vec::new();
        let mut monitors = Vec::new();
        for (i, spec) in specs.iter().enumerate() {
            let monitor = TestMonitor::arc();
            monitors.push(monitor.clone());
            let mut co = self.call_opts(FaultPlan::none());
            co.actor = i as u32 + 1;
            let f: ActorFn<CallOut> = match spec.clone() {
                ActorSpec::Backup { opts, alt_src } => {
                    let src = if alt_src {
                        self.alt.as_ref().map(|a| a.path.clone()).unwrap_or_else(|| self.src.clone())
                    } else {
                        self.src.clone()
                    };
                    Box::new(move |t| {
                        Box::pin(async move {
                            let archive = match Archive::open(t).await {
                                Ok(a) => a,
                                Err(e) => return CallOut::Backup(Err(err_info(&e))),
                            };
                            let bo = backup_options(&opts);
                            CallOut::Backup(conserve::backup(&archive, &src, &bo, monitor).await.map_err(|e| err_info(&e)))
                        })
                    })
                }
                ActorSpec::Delete { bands, dry_run, break_lock } => Box::new(move |t| {
                    Box::pin(async move {
                        let archive = match Archive::open(t).await {
                            Ok(a) => a,
                            Err(e) => return CallOut::Delete(Err(err_info(&e))),
                        };
                        let ids: Vec<BandId> = bands.iter().map(|b| band_id(*b)).collect();
                        CallOut::Delete(
                            archive
                                .delete_bands(&ids, &DeleteOptions { dry_run, break_lock }, monitor)
                                .await
                                .map_err(|e| err_info(&e)),
                        )
                    })
                }),
            };
            actors.push((co, f));
        }
        let rr = run_concurrent(&self.core, actors, schedule);
        let log = self.core.log_since(log_from);
        let store = self.store();
        let mut runs = Vec::new();
        for (i, (r, spec)) in rr.results.into_iter().zip(specs.iter()).enumerate() {
            let actor = i as u32 + 1;
            let bands_created: Vec<u32> = log
                .iter()
                .filter(|l| l.actor == actor && l.is_ok_write() && l.path.ends_with("/BANDHEAD"))
                .filter_map(|l| format::parse_band_dir(l.path.split('/').next().unwrap_or("")))
                .collect();
            if let ActorSpec::Backup { opts, alt_src } = spec {
                for b in &bands_created {
                    let closed = store.nodes.contains_key(&format!("{}/BANDTAIL", format::band_dir_name(*b)));
                    let snap = if *alt_src {
                        self.alt.as_ref().map(|a| a.snap.clone()).unwrap_or_else(|| self.snap.clone())
                    } else {
                        self.snap.clone()
                    };
                    self.versions.insert(
                        *b,
                        VersionModel {
                            snap,
                            opts: opts.clone(),
                            state: if closed { VState::Complete } else { VState::Interrupted },
                        },
                    );
                }
            }
            runs.push(ActorRun {
                spec: spec.clone(),
                outcome: r.outcome,
                errors: monitors[i].take_errors().iter().map(err_info).collect(),
                ops: r.ops,
                bands_created,
            });
        }
        self.sync_versions_with_store();
        RaceRun {
            actors: runs,
            trace: rr.trace,
            preemptions: rr.preemptions,
            log_from,
        }
    }

    fn call_opts(&self, plan: FaultPlan) -> CallOpts {
        // "Hung" means more storage operations than any terminating call could need: a
        // generous linear bound in what there is to read and write (a file of a megabyte
        // stored in 7-byte blocks legitimately takes hundreds of thousands of operations).
        let store_nodes = self.store().nodes.len() as u64;
        let source_bytes: u64 = self.snap.values().map(|n| n.data.len() as u64).sum::<u64>()
            + self.alt.as_ref().map(|a| a.snap.values().map(|n| n.data.len() as u64).sum::<u64>()).unwrap_or(0);
        let budget = 200_000u64 + 4 * store_nodes + 2 * source_bytes;
        self.core.op_budget.store(budget.min(u32::MAX as u64) as u32, std::sync::atomic::Ordering::SeqCst);
        let mut plan = plan;
        if plan.delay.is_none() {
            plan.delay = self.env.delay;
        }
        CallOpts {
            actor: 0,
            plan,
            drain: self.env.drain,
            gated: false,
        }
    }

    fn band_ids_in_store(&self) -> Vec<u32> {
        let st = self.store();
        st.children("")
            .unwrap_or_default()
            .into_iter()
            .filter(|(_, n)| matches!(n, crate::store::Node::Dir))
            .filter_map(|(name, _)| format::parse_band_dir(&name))
            .collect()
    }

    /// Run a real `conserve::backup` of the current source tree.
    pub fn backup(&mut self, opts: &Opts, plan: FaultPlan, want_changes: bool) -> BackupRun {
        let before = self.band_ids_in_store();
        let src = self.src.clone();
        let monitor = TestMonitor::arc();
        let mon2 = monitor.clone();
        let changes: Arc<Mutex<Vec<(char, String)>>> = Arc::new(Mutex::new(Vec::new()));
        let ch2 = changes.clone();
        let o = opts.clone();
        let r = run_call(&self.core, self.call_opts(plan), move |t| async move {
            let archive = Archive::open(t).await.map_err(|e| err_info(&e))?;
            let mut bo = backup_options(&o);
            if want_changes {
                bo.change_callback = Some(Box::new(move |c: &conserve::EntryChange| {
                    ch2.lock()
                        .unwrap()
                        .push((c.change.sigil(), c.apath.to_string()));
                    Ok(())
                }));
            }
            conserve::backup(&archive, &src, &bo, mon2)
                .await
                .map_err(|e| err_info(&e))
        });
        let errors: Vec<ErrInfo> = monitor.take_errors().iter().map(err_info).collect();
        let after = self.band_ids_in_store();
        let new_band = after.iter().copied().find(|b| !before.contains(b));
        if let Some(b) = new_band {
            let closed = self.store().nodes.contains_key(&format!("{}/BANDTAIL", format::band_dir_name(b)));
            self.versions.insert(
                b,
                VersionModel {
                    snap: self.snap.clone(),
                    opts: opts.clone(),
                    state: if closed { VState::Complete } else { VState::Interrupted },
                },
            );
        }
        let call = CallMeta::of(&r);
        BackupRun {
            outcome: r.outcome,
            errors,
            call,
            new_band,
            changes: changes.lock().unwrap().clone(),
        }
    }

    fn next_out_dir(&mut self) -> PathBuf {
        self.out_counter += 1;
        self.scratch
            .path
            .join(format!("out-{}-{}", self.fork_id, self.out_counter))
    }

    /// Run a real `conserve::restore` into a fresh directory (or `dest` if given), then walk it.
    pub fn restore_into(&mut self, spec: &RestoreSpec, dest: Option<&Path>) -> RestoreRun {
        let own = dest.is_none();
        let dest = dest.map(|p| p.to_owned()).unwrap_or_else(|| self.next_out_dir());
        if own {
            // Give the (empty) destination fixed metadata, so that what a restore leaves on the
            // root is a function of the archive only, never of the wall clock.
            std::fs::create_dir_all(&dest).expect("create restore destination");
            let _ = std::fs::set_permissions(&dest, <std::fs::Permissions as std::os::unix::fs::PermissionsExt>::from_mode(0o700));
            let t = filetime::FileTime::from_unix_time(1, 0);
            let _ = filetime::set_file_times(&dest, t, t);
        }
        let monitor = TestMonitor::arc();
        let mon2 = monitor.clone();
        let d2 = dest.clone();
        let spec2 = spec.clone();
        let r = run_call(&self.core, self.call_opts(FaultPlan::none()), move |t| async move {
            let archive = Archive::open(t).await.map_err(|e| err_info(&e))?;
            let ro = RestoreOptions {
                exclude: mk_exclude(&spec2.exclude),
                only_subtree: spec2.subtree.as_ref().map(|s| Apath::from(s.as_str())),
                overwrite: spec2.overwrite,
                band_selection: match spec2.band {
                    None => BandSelectionPolicy::LatestClosed,
                    Some(b) => BandSelectionPolicy::Specified(band_id(b)),
                },
                change_callback: None,
                inject_failures: Default::default(),
            };
            conserve::restore(&archive, &d2, ro, mon2)
                .await
                .map_err(|e| err_info(&e))
        });
        let errors: Vec<ErrInfo> = monitor.take_errors().iter().map(err_info).collect();
        let mut snap = if dest.exists() {
            tree::walk(&dest).unwrap_or_default()
        } else {
            Snap::new()
        };
        // Clock seam for what the restore did NOT set: anything the operating system stamped
        // with the wall clock (a parent directory created implicitly and never given its
        // recorded mtime, a file left after a failed restore) reads as a fixed sentinel, so
        // that what a restore leaves is a function of the archive and never of the real time.
        // Generated mtimes are never within a day of the present.
        let now = std::time::SystemTime::now().duration_since(std::time::UNIX_EPOCH).map(|d| d.as_secs() as i64).unwrap_or(0);
        for n in snap.values_mut() {
            if (n.mtime.0 - now).abs() < 86_400 {
                n.mtime = (3, 0);
            }
        }
        if own {
            let _ = std::fs::remove_dir_all(&dest);
        }
        let call = CallMeta::of(&r);
        RestoreRun {
            outcome: r.outcome,
            errors,
            snap,
            call,
        }
    }

    /// Move the simulated wall clock (what Conserve records as start and end times).
    pub fn set_clock_base(&self, secs: i64) {
        self.core.clock_base.store(secs, std::sync::atomic::Ordering::SeqCst);
    }

    /// Run the following calls on a real multi-thread tokio runtime with `n` workers
    /// (0: back to the current-thread runtime).
    pub fn set_runtime_workers(&self, n: u32) {
        self.core.runtime_workers.store(n, std::sync::atomic::Ordering::SeqCst);
    }

    /// Storage operations per simulated second.
    pub fn set_clock_div(&self, ops: i64) {
        self.core.clock_div.store(ops, std::sync::atomic::Ordering::SeqCst);
    }

    pub fn restore(&mut self, spec: &RestoreSpec) -> RestoreRun {
        self.restore_into(spec, None)
    }

    /// `Archive::iter_entries(...)` collected.
    pub fn list(&mut self, band: Option<u32>, subtree: &str, exclude: &[String]) -> ListRun {
        let monitor = TestMonitor::arc();
        let mon2 = monitor.clone();
        let subtree = subtree.to_string();
        let exclude = exclude.to_vec();
        let r = run_call(&self.core, self.call_opts(FaultPlan::none()), move |t| async move {
            let archive = Archive::open(t).await.map_err(|e| err_info(&e))?;
            let sel = match band {
                None => BandSelectionPolicy::LatestClosed,
                Some(b) => BandSelectionPolicy::Specified(band_id(b)),
            };
            let mut st = archive
                .iter_entries(sel, Apath::from(subtree.as_str()), mk_exclude(&exclude), mon2)
                .await
                .map_err(|e| err_info(&e))?;
            let mut out = Vec::new();
            while let Some(e) = st.next().await {
                out.push(e);
            }
            Ok(out)
        });
        let errors: Vec<ErrInfo> = monitor.take_errors().iter().map(err_info).collect();
        let call = CallMeta::of(&r);
        ListRun {
            outcome: r.outcome,
            errors,
            call,
        }
    }

    /// `Archive::delete_bands`. Updates the archive model from what is left in the store.
    pub fn delete(&mut self, bands: &[u32], dry_run: bool, break_lock: bool, plan: FaultPlan) -> DeleteRun {
        let monitor = TestMonitor::arc();
        let mon2 = monitor.clone();
        let ids: Vec<BandId> = bands.iter().map(|b| band_id(*b)).collect();
        let r = run_call(&self.core, self.call_opts(plan), move |t| async move {
            let archive = Archive::open(t).await.map_err(|e| err_info(&e))?;
            archive
                .delete_bands(&ids, &DeleteOptions { dry_run, break_lock }, mon2)
                .await
                .map_err(|e| err_info(&e))
        });
        let errors: Vec<ErrInfo> = monitor.take_errors().iter().map(err_info).collect();
        self.sync_versions_with_store();
        let call = CallMeta::of(&r);
        DeleteRun {
            outcome: r.outcome,
            errors,
            call,
        }
    }

    /// Mark as deleted every modelled version whose band directory is gone.
    pub fn sync_versions_with_store(&mut self) {
        let present = self.band_ids_in_store();
        for (id, v) in self.versions.iter_mut() {
            if !present.contains(id) {
                v.state = VState::Deleted;
            }
        }
    }

    pub fn validate(&mut self, quick: bool) -> ValidateRun {
        let monitor = TestMonitor::arc();
        let mon2 = monitor.clone();
        let r = run_call(&self.core, self.call_opts(FaultPlan::none()), move |t| async move {
            let archive = Archive::open(t).await.map_err(|e| err_info(&e))?;
            archive
                .validate(&ValidateOptions { skip_block_hashes: quick }, mon2)
                .await
                .map_err(|e| err_info(&e))
        });
        let errors: Vec<ErrInfo> = monitor.take_errors().iter().map(err_info).collect();
        let call = CallMeta::of(&r);
        ValidateRun {
            outcome: r.outcome,
            errors,
            call,
        }
    }

    /// What `conserve versions` needs: list bands and read their info.
    pub fn versions_info(&mut self) -> VersionsRun {
        let r = run_call(&self.core, self.call_opts(FaultPlan::none()), move |t| async move {
            let archive = Archive::open(t).await.map_err(|e| err_info(&e))?;
            let ids = archive.list_band_ids().await.map_err(|e| err_info(&e))?;
            let mut out = Vec::new();
            for id in ids {
                match conserve::Band::open(&archive, id).await {
                    Err(e) => out.push(BandInfo {
                        id: band_num(id),
                        open_err: Some(err_info(&e)),
                        is_closed: None,
                        hunk_count: None,
                    }),
                    Ok(b) => match b.get_info().await {
                        Ok(info) => out.push(BandInfo {
                            id: band_num(id),
                            open_err: None,
                            is_closed: Some(info.is_closed),
                            hunk_count: info.index_hunk_count,
                        }),
                        Err(e) => out.push(BandInfo {
                            id: band_num(id),
                            open_err: Some(err_info(&e)),
                            is_closed: None,
                            hunk_count: None,
                        }),
                    },
                }
            }
            Ok(out)
        });
        let call = CallMeta::of(&r);
        VersionsRun {
            outcome: r.outcome,
            call,
        }
    }

    /// `conserve::diff(version, source tree)` collected as (sigil, apath).
    pub fn diff(&mut self, band: u32, include_unchanged: bool, exclude: &[String]) -> (Outcome<Result<Vec<(char, String)>, ErrInfo>>, Vec<ErrInfo>) {
        let monitor = TestMonitor::arc();
        let mon2 = monitor.clone();
        let src = self.src.clone();
        let exclude = exclude.to_vec();
        let r = run_call(&self.core, self.call_opts(FaultPlan::none()), move |t| async move {
            let archive = Archive::open(t).await.map_err(|e| err_info(&e))?;
            let st = archive
                .open_stored_tree(BandSelectionPolicy::Specified(band_id(band)))
                .await
                .map_err(|e| err_info(&e))?;
            let lt = conserve::SourceTree::open(&src).map_err(|e| err_info(&e))?;
            let opts = conserve::DiffOptions {
                exclude: mk_exclude(&exclude),
                include_unchanged,
            };
            let mut d = conserve::diff(&st, &lt, opts, mon2).await.map_err(|e| err_info(&e))?;
            let mut out = Vec::new();
            while let Some(c) = d.next().await {
                out.push((c.change.sigil(), c.apath.to_string()));
            }
            Ok(out)
        });
        let errors: Vec<ErrInfo> = monitor.take_errors().iter().map(err_info).collect();
        (r.outcome, errors)
    }

    /// The order in which Conserve's own source walk yields the current source tree.
    pub fn source_walk(&self, exclude: &[String]) -> Result<Vec<String>, String> {
        use conserve::EntryTrait;
        let lt = conserve::SourceTree::open(&self.src).map_err(|e| e.to_string())?;
        let it = lt
            .iter_entries(Apath::root(), mk_exclude(exclude), TestMonitor::arc())
            .map_err(|e| e.to_string())?;
        Ok(it.map(|e| e.apath().to_string()).collect())
    }

    /// Bands the model holds as complete and not deleted, ascending.
    pub fn complete_versions(&self) -> Vec<u32> {
        self.versions
            .iter()
            .filter(|(_, v)| v.state == VState::Complete)
            .map(|(k, _)| *k)
            .collect()
    }

    pub fn gc_lock_present(&self) -> bool {
        self.store().nodes.contains_key("GC_LOCK")
    }

    pub fn log_lines(&self, from: usize) -> Vec<String> {
        self.core
            .log_since(from)
            .iter()
            .map(|r| r.line())
            .collect()
    }
}
