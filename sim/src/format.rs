//! Independent reader of the Conserve 0.6 archive format, written from doc/format.md.
//! It never calls Conserve's own logic: only `snap`, `serde_json` and `blake2-rfc`.
//! Also the reference definitions used as oracles: path order, ancestor test, stitching.

use std::cmp::Ordering;
use std::collections::BTreeMap;

use bytes::Bytes;
use serde_json::Value;

use crate::store::{MemStore, Node};

#[derive(Clone, Debug, PartialEq, Eq)]
pub struct DAddr {
    pub hash: String,
    pub start: u64,
    pub len: u64,
}

#[derive(Clone, Debug, PartialEq)]
pub struct DEntry {
    pub apath: String,
    pub kind: String,
    pub mtime: i64,
    pub mtime_nanos: u64,
    pub unix_mode: Option<u64>,
    pub user: Option<String>,
    pub group: Option<String>,
    pub addrs: Vec<DAddr>,
    pub target: Option<String>,
    /// True if "addrs" / "target" keys were present at all in the JSON.
    pub has_addrs_key: bool,
    pub has_target_key: bool,
}

impl DEntry {
    pub fn size(&self) -> u64 {
        self.addrs.iter().map(|a| a.len).sum()
    }
}

pub fn parse_entry(v: &Value) -> Result<DEntry, String> {
    let o = v.as_object().ok_or("entry is not an object")?;
    let apath = o
        .get("apath")
        .and_then(|x| x.as_str())
        .ok_or("entry without apath")?
        .to_string();
    let kind = o
        .get("kind")
        .and_then(|x| x.as_str())
        .ok_or("entry without kind")?
        .to_string();
    let mut addrs = Vec::new();
    if let Some(a) = o.get("addrs") {
        for ad in a.as_array().ok_or("addrs not a list")? {
            let ao = ad.as_object().ok_or("addr not an object")?;
            addrs.push(DAddr {
                hash: ao
                    .get("hash")
                    .and_then(|x| x.as_str())
                    .ok_or("addr without hash")?
                    .to_string(),
                start: ao.get("start").map(|x| x.as_u64().ok_or("bad start")).transpose()?.unwrap_or(0),
                len: ao.get("len").and_then(|x| x.as_u64()).ok_or("addr without len")?,
            });
        }
    }
    Ok(DEntry {
        apath,
        kind,
        mtime: o.get("mtime").and_then(|x| x.as_i64()).unwrap_or(0),
        mtime_nanos: o.get("mtime_nanos").and_then(|x| x.as_u64()).unwrap_or(0),
        unix_mode: o.get("unix_mode").and_then(|x| x.as_u64()),
        user: o.get("user").and_then(|x| x.as_str()).map(String::from),
        group: o.get("group").and_then(|x| x.as_str()).map(String::from),
        addrs,
        target: o.get("target").and_then(|x| x.as_str()).map(String::from),
        has_addrs_key: o.contains_key("addrs"),
        has_target_key: o.contains_key("target"),
    })
}

#[derive(Clone, Debug, PartialEq)]
pub enum FileView<T> {
    Absent,
    /// zero-length: the leftover of a killed write
    Empty,
    Ok(T),
    Bad(String),
}

impl<T> FileView<T> {
    pub fn ok(&self) -> Option<&T> {
        match self {
            FileView::Ok(t) => Some(t),
            _ => None,
        }
    }
    pub fn exists(&self) -> bool {
        !matches!(self, FileView::Absent)
    }
    pub fn is_ok(&self) -> bool {
        matches!(self, FileView::Ok(_))
    }
}

#[derive(Clone, Debug)]
pub struct BandView {
    pub id: u32,
    pub dir: String,
    pub head: FileView<Value>,
    pub tail: FileView<Value>,
    /// by hunk number; value: parsed entries
    pub hunks: BTreeMap<u32, FileView<Vec<DEntry>>>,
    pub hunk_paths: BTreeMap<u32, String>,
    /// files or directories in the band directory that the format does not describe
    pub strays: Vec<String>,
}

impl BandView {
    /// "Existing" for the stitching rule: it has a head file.
    pub fn has_head(&self) -> bool {
        self.head.exists()
    }
    /// Complete: the tail file exists (doc/format.md: "complete if its band tail file exists").
    pub fn is_closed(&self) -> bool {
        self.tail.exists()
    }
    pub fn head_ok(&self) -> bool {
        self.head.is_ok()
    }
    /// Own entries, from consecutively numbered hunks starting at 0 that exist and decode;
    /// reading stops at the first absent hunk number (as a sequential reader must) and
    /// skips an undecodable or empty one.
    pub fn own_entries(&self) -> Vec<DEntry> {
        let mut out = Vec::new();
        for (_n, h) in self.hunks.iter() {
            if let FileView::Ok(es) = h {
                out.extend(es.iter().cloned());
            }
        }
        out
    }
}

#[derive(Clone, Debug)]
pub enum BlockView {
    Ok { data: Bytes },
    Empty,
    Bad(String),
}

#[derive(Clone, Debug)]
pub struct ArchiveView {
    pub header: FileView<Value>,
    pub bands: BTreeMap<u32, BandView>,
    /// hash-hex file name -> (subdir it was found in, state). A name found in two
    /// subdirs is reported in `strays`.
    pub blocks: BTreeMap<String, (String, BlockView)>,
    pub gc_lock: Option<Bytes>,
    pub strays: Vec<String>,
}

pub fn blake2b_hex(data: &[u8]) -> String {
    hex::encode(blake2_rfc::blake2b::blake2b(64, &[], data).as_bytes())
}

pub fn snappy_decompress(b: &[u8]) -> Result<Vec<u8>, String> {
    let n = snap::raw::decompress_len(b).map_err(|e| e.to_string())?;
    if n > (1 << 30) {
        return Err(format!("claimed decompressed length {n} over the 1GB format limit"));
    }
    snap::raw::Decoder::new()
        .decompress_vec(b)
        .map_err(|e| e.to_string())
}

pub fn snappy_compress(b: &[u8]) -> Vec<u8> {
    snap::raw::Encoder::new().compress_vec(b).unwrap()
}

fn json_file(b: &Bytes) -> FileView<Value> {
    if b.is_empty() {
        return FileView::Empty;
    }
    match serde_json::from_slice::<Value>(b) {
        Ok(v) => FileView::Ok(v),
        Err(e) => FileView::Bad(e.to_string()),
    }
}

pub fn decode_hunk(b: &[u8]) -> FileView<Vec<DEntry>> {
    if b.is_empty() {
        return FileView::Empty;
    }
    let raw = match snappy_decompress(b) {
        Ok(r) => r,
        Err(e) => return FileView::Bad(format!("snappy: {e}")),
    };
    let v: Value = match serde_json::from_slice(&raw) {
        Ok(v) => v,
        Err(e) => return FileView::Bad(format!("json: {e}")),
    };
    let Some(list) = v.as_array() else {
        return FileView::Bad("hunk is not a json list".into());
    };
    let mut out = Vec::with_capacity(list.len());
    for e in list {
        match parse_entry(e) {
            Ok(e) => out.push(e),
            Err(m) => return FileView::Bad(m),
        }
    }
    FileView::Ok(out)
}

pub fn band_dir_name(id: u32) -> String {
    format!("b{id:04}")
}

pub fn parse_band_dir(name: &str) -> Option<u32> {
    let rest = name.strip_prefix('b')?;
    if rest.is_empty() || !rest.bytes().all(|c| c.is_ascii_digit()) {
        return None;
    }
    rest.parse().ok()
}

pub fn hunk_path(band: u32, n: u32) -> String {
    format!("{}/i/{:05}/{:09}", band_dir_name(band), n / 10000, n)
}

pub fn block_path(hash: &str) -> String {
    format!("d/{}/{}", &hash[..3], hash)
}

pub fn decode(store: &MemStore) -> ArchiveView {
    let mut view = ArchiveView {
        header: FileView::Absent,
        bands: BTreeMap::new(),
        blocks: BTreeMap::new(),
        gc_lock: None,
        strays: Vec::new(),
    };
    for (name, node) in store.children("").unwrap_or_default() {
        match (name.as_str(), node) {
            ("CONSERVE", Node::File(b)) => view.header = json_file(b),
            ("GC_LOCK", Node::File(b)) => view.gc_lock = Some(b.clone()),
            ("d", Node::Dir) => {
                for (sub, n2) in store.children("d").unwrap() {
                    match n2 {
                        Node::Dir => {
                            for (bn, n3) in store.children(&format!("d/{sub}")).unwrap() {
                                let p = format!("d/{sub}/{bn}");
                                match n3 {
                                    Node::File(b) => {
                                        let bv = if b.is_empty() {
                                            BlockView::Empty
                                        } else {
                                            match snappy_decompress(b) {
                                                Ok(d) => BlockView::Ok { data: Bytes::from(d) },
                                                Err(e) => BlockView::Bad(e),
                                            }
                                        };
                                        if view.blocks.insert(bn.clone(), (sub.clone(), bv)).is_some() {
                                            view.strays.push(format!("{p} (duplicate block name)"));
                                        }
                                    }
                                    Node::Dir => view.strays.push(p),
                                }
                            }
                        }
                        Node::File(_) => view.strays.push(format!("d/{sub}")),
                    }
                }
            }
            (n, Node::Dir) if parse_band_dir(n).is_some() => {
                let id = parse_band_dir(n).unwrap();
                let mut bv = BandView {
                    id,
                    dir: n.to_string(),
                    head: FileView::Absent,
                    tail: FileView::Absent,
                    hunks: BTreeMap::new(),
                    hunk_paths: BTreeMap::new(),
                    strays: Vec::new(),
                };
                for (bn, n2) in store.children(n).unwrap() {
                    match (bn.as_str(), n2) {
                        ("BANDHEAD", Node::File(b)) => bv.head = json_file(b),
                        ("BANDTAIL", Node::File(b)) => bv.tail = json_file(b),
                        ("i", Node::Dir) => {
                            for (sub, n3) in store.children(&format!("{n}/i")).unwrap() {
                                let subp = format!("{n}/i/{sub}");
                                match n3 {
                                    Node::Dir => {
                                        for (hn, n4) in store.children(&subp).unwrap() {
                                            let hp = format!("{subp}/{hn}");
                                            match (hn.parse::<u32>(), n4) {
                                                (Ok(num), Node::File(b))
                                                    if hn.len() == 9
                                                        && sub.len() == 5
                                                        && sub.parse::<u32>() == Ok(num / 10000) =>
                                                {
                                                    bv.hunks.insert(num, decode_hunk(b));
                                                    bv.hunk_paths.insert(num, hp);
                                                }
                                                _ => bv.strays.push(hp),
                                            }
                                        }
                                    }
                                    Node::File(_) => bv.strays.push(subp),
                                }
                            }
                        }
                        (other, _) => bv.strays.push(format!("{n}/{other}")),
                    }
                }
                if view.bands.insert(id, bv).is_some() {
                    view.strays.push(format!("{n} (duplicate band id)"));
                }
            }
            (other, _) => view.strays.push(other.to_string()),
        }
    }
    view
}

// ---------------------------------------------------------------------------------------
// Reference path rules

/// The documented total order: directory parts compared component by component (bytes
/// within a component, a proper prefix first), then the final names byte-wise.
pub fn ref_cmp(a: &str, b: &str) -> Ordering {
    let ac: Vec<&str> = a.split('/').collect();
    let bc: Vec<&str> = b.split('/').collect();
    let (ad, an) = ac.split_at(ac.len() - 1);
    let (bd, bn) = bc.split_at(bc.len() - 1);
    for i in 0..ad.len().min(bd.len()) {
        match ad[i].as_bytes().cmp(bd[i].as_bytes()) {
            Ordering::Equal => {}
            o => return o,
        }
    }
    match ad.len().cmp(&bd.len()) {
        Ordering::Equal => an[0].as_bytes().cmp(bn[0].as_bytes()),
        o => o,
    }
}

/// Well-formed: starts with '/', and (unless exactly "/") no empty, '.', '..' component, no NUL.
pub fn ref_valid(a: &str) -> bool {
    if !a.starts_with('/') {
        return false;
    }
    if a == "/" {
        return true;
    }
    a[1..]
        .split('/')
        .all(|c| !c.is_empty() && c != "." && c != ".." && !c.contains('\0'))
}

/// `s` is `p` itself or an ancestor of `p` by whole components.
pub fn ref_is_ancestor_or_self(s: &str, p: &str) -> bool {
    s == p || s == "/" || (p.len() > s.len() && p.as_bytes().starts_with(s.as_bytes()) && p.as_bytes()[s.len()] == b'/')
}

/// First position at which the sequence is not strictly increasing under the reference order.
pub fn first_order_violation<'a>(paths: impl Iterator<Item = &'a str>) -> Option<(String, String)> {
    let mut last: Option<&str> = None;
    for p in paths {
        if let Some(l) = last {
            if ref_cmp(l, p) != Ordering::Less {
                return Some((l.to_string(), p.to_string()));
            }
        }
        last = Some(p);
    }
    None
}

/// The stitching rule of C08 executed over the decoder's view: own entries of `band`, then,
/// if it has no tail, the entries of the nearest earlier band that has a head and opens,
/// restricted to paths after the last one taken, recursively.
///
/// `opens` tells whether Conserve is able to open a band at all (head decodes and is
/// supported); bands that exist but do not open contribute nothing and are passed over.
pub fn ref_stitch(view: &ArchiveView, band: u32) -> Vec<(u32, DEntry)> {
    ref_stitch_hunks(view, band).into_iter().map(|(b, _, e)| (b, e)).collect()
}

/// As `ref_stitch`, also naming the hunk each entry came from: (donor band, hunk number, entry).
pub fn ref_stitch_hunks(view: &ArchiveView, band: u32) -> Vec<(u32, u32, DEntry)> {
    let mut out: Vec<(u32, u32, DEntry)> = Vec::new();
    let mut last: Option<String> = None;
    let mut cur = Some(band);
    while let Some(id) = cur {
        let Some(bv) = view.bands.get(&id) else { break };
        if bv.head_ok() {
            // A sequential reader stops at the first missing hunk number.
            let mut n = 0u32;
            let numbers: Vec<u32> = bv.hunks.keys().copied().collect();
            for num in numbers {
                let _ = n;
                n = num;
                match &bv.hunks[&num] {
                    FileView::Ok(es) => {
                        for e in es {
                            let after = match &last {
                                None => true,
                                Some(l) => ref_cmp(l, &e.apath) == Ordering::Less,
                            };
                            if after {
                                out.push((id, num, e.clone()));
                            }
                        }
                        // the resume point moves to the hunk's last path even if nothing of it
                        // was taken -- but only forward
                        if let Some(le) = es.last() {
                            let fwd = match &last {
                                None => true,
                                Some(l) => ref_cmp(l, &le.apath) == Ordering::Less,
                            };
                            if fwd {
                                last = Some(le.apath.clone());
                            }
                        }
                    }
                    _ => {}
                }
            }
        }
        if bv.is_closed() {
            break;
        }
        // nearest earlier band that has a head
        cur = view
            .bands
            .range(..id)
            .rev()
            .find(|(_, b)| b.has_head())
            .map(|(i, _)| *i);
    }
    out
}

/// Bytes of a file entry reassembled from its addresses, or why that is impossible.
pub fn reassemble(view: &ArchiveView, e: &DEntry) -> Result<Vec<u8>, &'static str> {
    let mut out = Vec::new();
    for a in &e.addrs {
        match view.blocks.get(&a.hash) {
            Some((_, BlockView::Ok { data })) => {
                let (s, l) = (a.start as usize, a.len as usize);
                if s.checked_add(l).map(|end| end > data.len()).unwrap_or(true) {
                    return Err("address_past_block_end");
                }
                out.extend_from_slice(&data[s..s + l]);
            }
            Some((_, BlockView::Empty)) => return Err("block_empty"),
            Some((_, BlockView::Bad(_))) => return Err("block_undecodable"),
            None => return Err("block_missing"),
        }
    }
    Ok(out)
}

/// Conserve's IndexEntry seen through the same lens as decoded entries.
pub fn dentry_of(e: &conserve::IndexEntry) -> DEntry {
    parse_entry(&serde_json::to_value(e).expect("IndexEntry serialises")).expect("IndexEntry has apath and kind")
}

/// Compare the metadata Conserve recorded for a path with what the walker saw.
/// Returns the name of the first differing field.
pub fn entry_vs_snapshot(e: &DEntry, s: &crate::tree::SNode, owner: bool) -> Option<&'static str> {
    let kind = match s.kind {
        'f' => "File",
        'd' => "Dir",
        'l' => "Symlink",
        _ => "?",
    };
    if e.kind != kind {
        return Some("kind");
    }
    if (e.mtime, e.mtime_nanos) != (s.mtime.0, s.mtime.1 as u64) {
        return Some("mtime");
    }
    if e.unix_mode != Some(s.mode as u64) {
        return Some("unix_mode");
    }
    if s.kind == 'l' && e.target.as_deref() != Some(s.target.as_str()) {
        return Some("target");
    }
    if s.kind == 'f' && e.size() != s.data.len() as u64 {
        return Some("size");
    }
    if !owner && (e.user.is_some() || e.group.is_some()) {
        return Some("owner_recorded_despite_option");
    }
    None
}

/// How many files of `snap` a correct incremental backup must be able to take over
/// unchanged from its basis: the basis is the stitched listing of the newest band directory
/// (bands that do not open are passed over), and a file is reusable when the basis has a File
/// entry for its path with the same mtime and size whose blocks are all intact.
pub fn expected_reusable_files(view: &ArchiveView, snap: &crate::tree::Snap) -> usize {
    let Some(newest) = view.bands.keys().next_back().copied() else { return 0 };
    let basis: std::collections::BTreeMap<String, DEntry> = ref_stitch(view, newest).into_iter().map(|(_, e)| (e.apath.clone(), e)).collect();
    snap.iter()
        .filter(|(p, n)| {
            n.kind == 'f'
                && basis
                    .get(*p)
                    .map(|e| e.kind == "File" && (e.mtime, e.mtime_nanos) == (n.mtime.0, n.mtime.1 as u64) && e.size() == n.data.len() as u64 && reassemble(view, e).is_ok())
                    .unwrap_or(false)
        })
        .count()
}
