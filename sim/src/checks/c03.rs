//! C03 — a backup killed at any point leaves a consistent, usable archive.
//! Crash-point enumeration: for each sampled scenario, EVERY storage operation index of
//! the final backup (crash before it) and, for writes, the variant that leaves a zero-length
//! file. C14's resume clause rides on the same enumeration (`Mode::Resume`).

use std::collections::{BTreeMap, BTreeSet};

use serde_json::json;

use crate::conform::dangling_references;
use crate::format::{self, ArchiveView, DEntry, FileView, ref_cmp, ref_stitch};
use crate::genr::{Gen, GenCfg};
use crate::report::{Acc, CheckInfo, Found, Violation, panic_disc};
use crate::rng::{self, Rng};
use crate::scenario::{
    HistoryCfg, Scenario, Step, StepResult, exec_step, expect_restore_equals, gen_history, outcome_disc, outcome_text,
};
use crate::sim::{Fault, FaultPlan, Outcome};
use crate::tree::{Snap, TreeModel};
use crate::world::{RestoreSpec, VState, World};

use super::{CheckDef, Tier, founds};

#[derive(Clone, Copy, PartialEq, Eq)]
pub enum Mode {
    Crash,
    Resume,
}

pub fn def() -> CheckDef {
    CheckDef {
        info: CheckInfo {
            id: "C03",
            level: "fault_enumeration",
            rule: "one seeded run = one scenario (history of 0-3 complete or interrupted versions, then an edited tree and options) whose final backup is first traced fault-free and then re-run from the same pre-state once per crash plan: crash before operation k for EVERY k of the trace, and crash leaving a zero-length file for every write k. One evaluation = one crashed world with all oracles applied (open, every complete version restores, no dangling reference, stitched listing and restore of the interrupted version equal the reference stitch, follow-up backup completes and restores). Non-trivial: the crash fell after the first and before the last mutating operation of the backup; distinct = distinct (pre-state hash, k, variant).",
            assumptions: &[
                "a crash is the loss of everything not yet applied to the store: operations are atomic and durable once applied (DESIGN.md 10 lists torn writes as out of scope)",
                "entries inherited from the older version whose parent the newer part replaced by a non-directory may fail to restore; only wrong content is forbidden for them",
                "a zero-length BANDTAIL leftover makes the band complete by the format's rule",
            ],
            real: super::REAL_COMPONENTS,
            stub: super::STUB_COMPONENTS,
        },
        runs: |t| if t.thorough() { 3_000 } else { 128 },
        run: |s, t, a| run(s, t, a, Mode::Crash),
        execute: |sc, acc| execute(sc, acc, Mode::Crash),
        expected_probes: &[
            "crash_between_block_and_hunk",
            "crash_before_tail",
            "crash_before_head",
            "crash_left_empty_block",
            "crash_left_empty_hunk",
            "stitch_crossed_two_incomplete",
            "resume_point_inside_hunk",
            "interrupted_band_listed",
            "followup_backup_ok",
        ],
    }
}

pub fn generate(seed: u64, tier: Tier, check: &str) -> Scenario {
    let mut r = Rng::new(seed);
    let hc = HistoryCfg {
        min_steps: 1,
        max_steps: if tier.thorough() { 8 } else { 6 },
        interrupts: true,
        crash_empty: true,
        deletes: r.chance(1, 3),
        thorough: false,
        small_blocks: r.chance(2, 3),
    };
    let mut sc = gen_history(&mut r, check, seed, &hc);
    // a final edit burst and the backup under test
    let opts = match sc.steps.iter().rev().find_map(|s| match s {
        Step::Backup { opts, .. } => Some(opts.clone()),
        _ => None,
    }) {
        Some(o) if r.chance(2, 3) => o,
        _ => crate::genr::draw_opts_small_blocks(&mut r),
    };
    // replay the edits on a model to generate an applicable burst
    let mut model = TreeModel::new(sc.root_meta);
    for s in &sc.steps {
        if let Step::Edit(es) = s {
            for e in es {
                model.apply(e);
            }
        }
    }
    let cfg = GenCfg::draw(&mut r, &opts, false);
    let mut g = Gen::new(r.derive("final"));
    g.next_cseed = 1_000_000;
    g.clock = 1_000_000;
    let mut burst = g.burst(&model, &cfg, 1 + r.usize(6));
    if seed % 4 == 1 {
        // directed: the new tree replaces a populated directory by a symlink to another
        // directory; killed after the link is recorded, the version is stitched onto one that
        // still holds entries below that path
        let mut m2 = model.clone();
        for e in &burst {
            m2.apply(e);
        }
        for e in g.dir_to_symlink_scaffold(&m2) {
            if m2.apply(&e) {
                burst.push(e);
            }
        }
    }
    sc.steps.push(Step::Edit(burst));
    sc.steps.push(Step::Backup {
        opts,
        plan: FaultPlan::none(),
    });
    sc.params = json!({"enumerate": true});
    sc
}

fn run(seed: u64, tier: Tier, acc: &mut Acc, mode: Mode) -> Vec<Found> {
    let id = if mode == Mode::Crash { "C03" } else { "C14" };
    let sc = generate(seed, tier, id);
    match execute_found(&sc, acc, mode) {
        Ok(f) => {
            acc.sample(sc.compact());
            f
        }
        Err(e) => {
            acc.harness_errors.push(format!("{id} seed {seed}: {e}"));
            vec![]
        }
    }
}

pub fn execute(sc: &Scenario, acc: &mut Acc, mode: Mode) -> Result<Vec<Violation>, String> {
    Ok(execute_found(sc, acc, mode)?.into_iter().map(|f| f.violation).collect())
}

/// Expected stitched listing of band `id` per Appendix A, from the decoder's view.
fn expected_listing(view: &ArchiveView, id: u32) -> Vec<(u32, DEntry)> {
    ref_stitch(view, id)
}

fn is_orphan(path: &str, listing: &BTreeMap<String, (u32, DEntry)>) -> bool {
    // some proper ancestor is missing from the listing or is not a directory
    let mut p = crate::tree::parent_apath(path).to_string();
    loop {
        match listing.get(&p) {
            Some((_, e)) if e.kind == "Dir" => {}
            _ => return true,
        }
        if p == "/" {
            return false;
        }
        p = crate::tree::parent_apath(&p).to_string();
    }
}

/// Oracle (d): the interrupted version `band` lists and restores as the reference stitch says.
fn check_interrupted_version(
    w: &mut World,
    acc: &mut Acc,
    prop: &str,
    band: u32,
    view: &ArchiveView,
    new_snap: &Snap,
    owner_opt: bool,
    out: &mut Vec<Violation>,
) {
    let bv = &view.bands[&band];
    // listed, and reported not closed unless a tail file exists
    let vi = w.versions_info();
    acc.calls += 1;
    match &vi.outcome {
        Outcome::Done(Ok(infos)) => match infos.iter().find(|i| i.id == band) {
            None => out.push(Violation::new(prop, "interrupted_version_listed", "absent", format!("b{band:04} has a head but is not listed"))),
            Some(i) => {
                acc.hit("interrupted_band_listed");
                if let Some(c) = i.is_closed {
                    if c != bv.is_closed() {
                        out.push(Violation::new(
                            prop,
                            "interrupted_version_listed",
                            "closed_flag",
                            format!("b{band:04}: is_closed reported {c}, tail file exists: {}", bv.is_closed()),
                        ));
                    }
                }
            }
        },
        other => out.push(Violation::new(prop, "versions_listing_completes", outcome_disc(other), outcome_text(other))),
    }
    // own entries are exactly the new snapshot's entries up to the last recorded path
    let own: Vec<DEntry> = bv.own_entries();
    if let Some(last) = own.last() {
        let expect_paths: Vec<&String> = {
            let mut v: Vec<&String> = new_snap.keys().filter(|p| ref_cmp(p, &last.apath) != std::cmp::Ordering::Greater).collect();
            v.sort_by(|a, b| ref_cmp(a, b));
            v
        };
        let own_paths: Vec<&String> = own.iter().map(|e| &e.apath).collect();
        if own_paths != expect_paths {
            out.push(Violation::new(
                prop,
                "interrupted_own_entries_are_prefix_of_source",
                "path_set",
                format!("b{band:04} recorded {own_paths:?} but the source up to {:?} holds {expect_paths:?}", last.apath),
            ));
        }
        for e in &own {
            if let Some(s) = new_snap.get(&e.apath) {
                if let Some(f) = format::entry_vs_snapshot(e, s, owner_opt) {
                    out.push(Violation::new(
                        prop,
                        "interrupted_own_entries_match_source",
                        f,
                        format!("b{band:04} {:?}: recorded {f} differs from the source", e.apath),
                    ));
                }
                if s.kind == 'f' {
                    match format::reassemble(view, e) {
                        Ok(bytes) if bytes == *s.data => {}
                        Ok(_) => out.push(Violation::new(prop, "interrupted_own_content", "other_bytes", format!("b{band:04} {:?}", e.apath))),
                        Err(why) => out.push(Violation::new(prop, "interrupted_own_content", why, format!("b{band:04} {:?}", e.apath))),
                    }
                }
            }
        }
    }
    // listing through Conserve == reference stitch
    let expected = expected_listing(view, band);
    let donors: BTreeSet<u32> = expected.iter().map(|(b, _)| *b).collect();
    if donors.len() >= 3 {
        acc.hit("stitch_crossed_two_incomplete");
    }
    let lr = w.list(Some(band), "/", &[]);
    acc.calls += 1;
    acc.ops += lr.call.ops as u64;
    match &lr.outcome {
        Outcome::Done(Ok(entries)) => {
            let got: Vec<DEntry> = entries.iter().map(format::dentry_of).collect();
            let want: Vec<DEntry> = expected.iter().map(|(_, e)| e.clone()).collect();
            if got != want {
                let gp: Vec<&str> = got.iter().map(|e| e.apath.as_str()).collect();
                let wp: Vec<&str> = want.iter().map(|e| e.apath.as_str()).collect();
                let disc = if gp != wp {
                    if gp.len() < wp.len() { "entries_missing" } else if gp.len() > wp.len() { "entries_extra" } else { "paths_differ" }
                } else {
                    "entry_fields_differ"
                };
                out.push(Violation::new(
                    prop,
                    "interrupted_listing_equals_reference_stitch",
                    disc,
                    format!("b{band:04}: listing {gp:?} vs reference {wp:?}"),
                ));
            }
        }
        other => out.push(Violation::new(prop, "interrupted_listing_completes", outcome_disc(other), format!("b{band:04}: {}", outcome_text(other)))),
    }
    // restore of the interrupted version: expected content for every non-orphan entry
    let listing: BTreeMap<String, (u32, DEntry)> = expected.iter().map(|(b, e)| (e.apath.clone(), (*b, e.clone()))).collect();
    // The mixed situation: the newer band recorded a SYMLINK at a path below which the older
    // band still contributes entries. Restoring those orphans goes through the link.
    let mixed_symlink = listing
        .iter()
        .any(|(p, (_, e))| e.kind == "Symlink" && listing.keys().any(|q| q.starts_with(&format!("{p}/"))));
    let out_len_before_restore = out.len();
    let rr = w.restore(&RestoreSpec {
        band: Some(band),
        ..Default::default()
    });
    acc.calls += 1;
    acc.ops += rr.call.ops as u64;
    match &rr.outcome {
        Outcome::Done(Ok(())) => {
            for (p, (_, e)) in &listing {
                if p != "/" && is_orphan(p, &listing) {
                    acc.hit("orphan_entry_in_stitched_listing");
                    continue;
                }
                match rr.snap.get(p) {
                    None => out.push(Violation::new(prop, "interrupted_restore_has_listed_entries", format!("missing:{}", e.kind), format!("b{band:04}: {p:?} listed but not restored"))),
                    Some(s) => {
                        let kind = match s.kind {
                            'f' => "File",
                            'd' => "Dir",
                            'l' => "Symlink",
                            _ => "?",
                        };
                        if kind != e.kind {
                            out.push(Violation::new(prop, "interrupted_restore_content", "kind", format!("b{band:04}: {p:?} restored as {kind}, listed as {}", e.kind)));
                            continue;
                        }
                        if e.kind == "File" {
                            match format::reassemble(view, e) {
                                Ok(bytes) if bytes == *s.data => {}
                                Ok(_) => out.push(Violation::new(prop, "interrupted_restore_content", "other_bytes", format!("b{band:04}: {p:?}"))),
                                Err(why) => out.push(Violation::new(prop, "interrupted_restore_content", why, format!("b{band:04}: {p:?}"))),
                            }
                        }
                        if e.kind == "Symlink" && e.target.as_deref() != Some(s.target.as_str()) {
                            out.push(Violation::new(prop, "interrupted_restore_content", "target", format!("b{band:04}: {p:?}")));
                        }
                        if (e.mtime, e.mtime_nanos) != (s.mtime.0, s.mtime.1 as u64) {
                            out.push(Violation::new(prop, "interrupted_restore_content", "mtime", format!("b{band:04}: {p:?}")));
                        }
                        if e.kind != "Symlink" && e.unix_mode != Some(s.mode as u64) {
                            out.push(Violation::new(prop, "interrupted_restore_content", "mode", format!("b{band:04}: {p:?} listed {:?} restored {:o}", e.unix_mode, s.mode)));
                        }
                    }
                }
            }
            for (p, n) in rr.snap.iter() {
                if !listing.contains_key(p) && p != "/" {
                    // a directory that exists only because a listed (orphaned) entry below it
                    // needed a parent is not an entry of its own
                    let implicit_parent = n.kind == 'd' && listing.keys().any(|q| q.starts_with(&format!("{p}/")));
                    if implicit_parent {
                        acc.hit("implicit_parent_of_orphan");
                        continue;
                    }
                    out.push(Violation::new(prop, "interrupted_restore_only_listed_entries", "extra", format!("b{band:04}: {p:?} restored but not listed")));
                }
            }
        }
        other => out.push(Violation::new(prop, "interrupted_restore_completes", outcome_disc(other), format!("b{band:04}: {}", outcome_text(other)))),
    }
    if mixed_symlink && out.len() > out_len_before_restore {
        // one class, one signature: whatever went wrong in this restore went wrong because
        // entries of the older band were written through a symlink recorded by the newer one
        let details: Vec<String> = out.drain(out_len_before_restore..).map(|v| format!("{}/{}: {}", v.oracle, v.disc, v.detail)).collect();
        acc.hit("restore_through_symlink_of_newer_band");
        out.push(Violation::new(
            prop,
            "interrupted_restore_content",
            "written_through_symlink_of_newer_band",
            format!("b{band:04}: the stitched listing holds a symlink from the interrupted band and entries below the same path from the older band; restoring them went through the link: {}", details.join(" | ")),
        ));
    }
}

fn dedup(v: Vec<Violation>) -> Vec<Violation> {
    let mut seen = BTreeSet::new();
    v.into_iter().filter(|x| seen.insert(x.signature())).collect()
}

pub fn execute_found(sc: &Scenario, acc: &mut Acc, mode: Mode) -> Result<Vec<Found>, String> {
    let prop = if mode == Mode::Crash { "C03" } else { "C14" };
    let enumerate = sc.params.get("enumerate").and_then(|v| v.as_bool()).unwrap_or(false);
    let mut w = World::new(sc.env.clone(), sc.root_meta);
    acc.runs += 1;
    *acc.backends.entry("mem".into()).or_default() += 1;
    let (last, prefix) = sc.steps.split_last().ok_or("empty scenario")?;
    let Step::Backup { opts, plan: given_plan } = last else {
        return Err("last step must be a backup".into());
    };
    for step in prefix {
        exec_step(&mut w, step, acc, false)?;
    }
    let pre_hash = w.store().state_hash();
    let pre_store = w.store();
    // the plans to run
    let mut plans: Vec<FaultPlan> = Vec::new();
    if enumerate {
        let mut probe = w.fork();
        let b = probe.backup(opts, FaultPlan::none(), false);
        acc.calls += 1;
        acc.ops += b.call.ops as u64;
        if !w.gc_lock_present() && !matches!(b.outcome, Outcome::Done(Ok(_))) {
            // the fault-free run itself misbehaves: report through plan "none"
            plans.push(FaultPlan::none());
        } else {
            let log = probe.core.log_since(b.call.log_from);
            for rec in &log {
                plans.push(FaultPlan::single(rec.idx, Fault::CrashBefore));
                if rec.verb == "write" {
                    plans.push(FaultPlan::single(rec.idx, Fault::CrashEmpty));
                }
            }
            acc.exhaustive_within_scenario = true;
            if super::cap_plans(&mut plans, super::plan_cap(3 * log.len(), 1500), sc.seed) {
                acc.exhaustive_within_scenario = false;
                acc.hit("enumeration_capped");
            }
        }
    } else {
        plans.push(given_plan.clone());
    }
    let mut founds: Vec<Found> = Vec::new();
    for plan in plans {
        let mut cw = w.fork();
        let mut out: Vec<Violation> = Vec::new();
        let b = cw.backup(opts, plan.clone(), false);
        acc.calls += 1;
        acc.evaluations += 1;
        acc.ops += b.call.ops as u64;
        acc.faults_of(&b.call.fired);
        let log = cw.core.log_since(b.call.log_from);
        // classification of the crash position for reach/non-triviality
        let mutating: Vec<usize> = log.iter().enumerate().filter(|(_, r)| r.mutated()).map(|(i, _)| i).collect();
        let crashed = matches!(b.outcome, Outcome::Crashed);
        if crashed {
            let last_rec = log.last().unwrap();
            let after_first_mut = !mutating.is_empty();
            let wrote_tail = log.iter().any(|r| r.path.ends_with("BANDTAIL") && r.mutated());
            if after_first_mut && !wrote_tail {
                let (k, f) = b.call.fired.first().copied().unwrap_or((0, Fault::CrashBefore));
                acc.nontrivial.insert(rng::mix(&[pre_hash, k as u64, matches!(f, Fault::CrashEmpty) as u64]));
            }
            if last_rec.path.ends_with("BANDTAIL") {
                acc.hit("crash_before_tail");
            }
            if last_rec.path.ends_with("BANDHEAD") {
                acc.hit("crash_before_head");
            }
            if last_rec.path.contains("/i/") && last_rec.verb == "write" {
                // blocks of this hunk are already stored
                if log.iter().any(|r| r.path.starts_with("d/") && r.is_ok_write()) {
                    acc.hit("crash_between_block_and_hunk");
                }
                if last_rec.res == crate::sim::Res::CrashEmpty {
                    acc.hit("crash_left_empty_hunk");
                }
            }
            if last_rec.path.starts_with("d/") && last_rec.res == crate::sim::Res::CrashEmpty {
                acc.hit("crash_left_empty_block");
            }
        }
        if let Outcome::Panicked(p) = &b.outcome {
            out.push(Violation::new(prop, "backup_no_panic", panic_disc(p), format!("backup under {plan:?} panicked at {}:{}: {}", p.file, p.line, p.msg)));
        }
        if plan.is_faultless() && !matches!(b.outcome, Outcome::Done(Ok(_))) && !w.gc_lock_present() {
            out.push(Violation::new(prop, "faultfree_backup_completes", outcome_disc(&b.outcome), outcome_text(&b.outcome)));
        }
        let st = cw.store();
        acc.states.insert(st.state_hash());
        let view = format::decode(&st);
        let crashed_store = st.clone();

        if mode == Mode::Crash {
            // (b) every previously complete version restores exactly
            for id in cw.complete_versions() {
                if Some(id) == b.new_band {
                    continue;
                }
                let v = cw.versions[&id].clone();
                let vs = expect_restore_equals(&mut cw, acc, prop, Some(id), &v.snap, v.opts.owner, &format!("after crash: restore of b{id:04}"));
                out.extend(vs);
            }
            // ... and so does the default request, "the latest complete version"
            {
                let new_is_complete = b.new_band.and_then(|nb| view.bands.get(&nb)).map(|bv| bv.is_closed() && bv.head_ok()).unwrap_or(false);
                let expected = if new_is_complete {
                    // tail written: by the format's rule the new version is the latest complete one
                    b.new_band.map(|nb| (nb, cw.snap.clone(), opts.owner))
                } else {
                    cw.complete_versions().into_iter().filter(|id| Some(*id) != b.new_band).max().map(|id| (id, cw.versions[&id].snap.clone(), cw.versions[&id].opts.owner))
                };
                if let Some((id, snap, owner)) = expected {
                    acc.hit("default_restore_after_crash");
                    for mut x in expect_restore_equals(&mut cw, acc, prop, None, &snap, owner, &format!("after crash: restore of the latest complete version (b{id:04})")) {
                        x.oracle = format!("latest_complete_{}", x.oracle);
                        out.push(x);
                    }
                }
            }
            // (c) no entry anywhere refers to a missing or short block
            for (band, path, why) in dangling_references(&view) {
                out.push(Violation::new(prop, "no_dangling_reference", why.clone(), format!("b{band:04} {path:?}: block {why}")));
            }
            // a version that has a tail after the crash is complete by the format's rule, so it
            // must hold everything: "tail written last"
            if let Some(nb) = b.new_band {
                if view.bands.get(&nb).map(|bv| bv.is_closed() && bv.head_ok()).unwrap_or(false) && crashed {
                    let snap = cw.snap.clone();
                    for mut v in expect_restore_equals(&mut cw, acc, prop, Some(nb), &snap, opts.owner, &format!("b{nb:04} has a tail after the crash")) {
                        v.oracle = format!("band_with_tail_is_complete_{}", v.oracle);
                        out.push(v);
                    }
                    acc.hit("crashed_band_has_tail");
                }
            }
            // (d) the interrupted version
            if let Some(nb) = b.new_band {
                if let Some(bv) = view.bands.get(&nb) {
                    if matches!(bv.head, FileView::Ok(_)) {
                        let snap = cw.snap.clone();
                        // resume point inside a hunk of the older band?
                        if let Some(last) = bv.own_entries().last() {
                            if let Some((_, prev)) = view.bands.range(..nb).rev().find(|(_, b)| b.has_head()) {
                                for h in prev.hunks.values() {
                                    if let FileView::Ok(es) = h {
                                        if es.len() > 1
                                            && ref_cmp(&es[0].apath, &last.apath) != std::cmp::Ordering::Greater
                                            && ref_cmp(&es[es.len() - 1].apath, &last.apath) == std::cmp::Ordering::Greater
                                        {
                                            acc.hit("resume_point_inside_hunk");
                                        }
                                    }
                                }
                            }
                        }
                        check_interrupted_version(&mut cw, acc, prop, nb, &view, &snap, opts.owner, &mut out);
                    }
                }
            }
        }
        // (e) a later fault-free backup of the same source completes and restores exactly
        let lock = cw.gc_lock_present();
        let f = cw.backup(opts, FaultPlan::none(), false);
        acc.calls += 1;
        acc.ops += f.call.ops as u64;
        match &f.outcome {
            Outcome::Done(Ok(stats)) => {
                acc.hit("followup_backup_ok");
                if mode == Mode::Crash {
                    match f.new_band {
                        Some(nb) if cw.versions[&nb].state == VState::Complete => {
                            let snap = cw.snap.clone();
                            let vs = expect_restore_equals(&mut cw, acc, prop, Some(nb), &snap, opts.owner, &format!("follow-up backup b{nb:04}"));
                            for mut v in vs {
                                v.oracle = format!("followup_{}", v.oracle);
                                out.push(v);
                            }
                        }
                        _ => out.push(Violation::new(prop, "followup_backup_completes", "no_complete_band", "follow-up backup returned Ok without a complete version")),
                    }
                } else if crashed {
                    // C14 resume clause: whatever the crash point, every file that is unchanged
                    // against the stitched basis (which passes over a band that does not open)
                    // must be taken over, not read and stored again
                    let reusable = format::expected_reusable_files(&view, &cw.snap);
                    if stats.unmodified_files < reusable {
                        out.push(Violation::new(
                            prop,
                            "resume_reuses_recorded_entries",
                            "unchanged_files_stored_again",
                            format!("{reusable} files are unchanged against the stitched basis with intact blocks, the resumed run took over only {}", stats.unmodified_files),
                        ));
                    }
                    let flog = cw.core.log_since(f.call.log_from);
                    for r in flog.iter().filter(|r| r.is_ok_write() && r.path.starts_with("d/")) {
                        if crashed_store.file(&r.path).map(|b| !b.is_empty()).unwrap_or(false) {
                            out.push(Violation::new(prop, "resume_does_not_rewrite_blocks", "rewritten", format!("block {} stored by the interrupted run was written again", &r.path[..18.min(r.path.len())])));
                        }
                    }
                    // unchanged files at or before the interrupted band's last recorded path reuse its addresses
                    if let (Some(ib), Some(nb)) = (b.new_band, f.new_band) {
                        let view2 = cw.view();
                        if let (Some(ibv), Some(nbv)) = (view.bands.get(&ib), view2.bands.get(&nb)) {
                            if matches!(ibv.head, FileView::Ok(_)) {
                                let newmap: BTreeMap<String, DEntry> = nbv.own_entries().into_iter().map(|e| (e.apath.clone(), e)).collect();
                                let mut reused = 0;
                                for e in ibv.own_entries() {
                                    if e.kind != "File" {
                                        continue;
                                    }
                                    // blocks must still be intact for reuse to be demanded
                                    if format::reassemble(&view, &e).is_err() {
                                        continue;
                                    }
                                    match newmap.get(&e.apath) {
                                        Some(n) if n.addrs == e.addrs => reused += 1,
                                        Some(n) => out.push(Violation::new(
                                            prop,
                                            "resume_reuses_recorded_entries",
                                            "different_addrs",
                                            format!("{:?}: interrupted run recorded {:?}, resumed run recorded {:?}", e.apath, e.addrs.len(), n.addrs.len()),
                                        )),
                                        None => {}
                                    }
                                }
                                if reused > 0 {
                                    acc.hit("resume_reused_entry");
                                }
                                // reuse is observable in the statistics: every file the interrupted
                                // run recorded (with intact blocks) is unchanged, so it must be counted
                                // as unmodified rather than read and stored again
                                let recorded_intact = ibv
                                    .own_entries()
                                    .iter()
                                    .filter(|e| e.kind == "File" && format::reassemble(&view, e).is_ok() && newmap.contains_key(&e.apath))
                                    .count();
                                if stats.unmodified_files < recorded_intact {
                                    out.push(Violation::new(
                                        prop,
                                        "resume_reuses_recorded_entries",
                                        "not_counted_unmodified",
                                        format!(
                                            "the interrupted run recorded {recorded_intact} files with intact blocks, the resumed run treated only {} files as unmodified",
                                            stats.unmodified_files
                                        ),
                                    ));
                                }
                                if stats.unmodified_files > 0 {
                                    acc.hit("basis_entry_reused");
                                }
                            }
                        }
                    }
                }
            }
            Outcome::Done(Err(e)) if lock && e.variant == "GarbageCollectionLockHeld" => {}
            other => out.push(Violation::new(prop, "followup_backup_completes", outcome_disc(other), format!("after {plan:?}: {}", outcome_text(other)))),
        }
        let _ = &pre_store;
        if !out.is_empty() {
            let mut fsc = sc.clone();
            *fsc.steps.last_mut().unwrap() = Step::Backup {
                opts: opts.clone(),
                plan: plan.clone(),
            };
            fsc.params = json!({"enumerate": false});
            founds.extend(founds_of(&fsc, dedup(out)));
        }
    }
    Ok(founds)
}

fn founds_of(sc: &Scenario, vs: Vec<Violation>) -> Vec<Found> {
    founds(sc, vs)
}
