//! C12 — selecting a subtree returns exactly that subtree (listing and restore).

use std::collections::BTreeSet;

use crate::format::{self, ref_is_ancestor_or_self};
use crate::genr::{Gen, GenCfg, NameStyle, draw_opts};
use crate::report::{Acc, CheckInfo, Found, Violation};
use crate::rng::{self, Rng};
use crate::scenario::{Scenario, Step, draw_env, exec_step, outcome_disc, outcome_text};
use crate::sim::{Fault, FaultPlan, Outcome};
use crate::tree::TreeModel;
use crate::world::{RestoreSpec, World};

use super::{CheckDef, Tier, founds};

pub fn def() -> CheckDef {
    CheckDef {
        info: CheckInfo {
            id: "C12",
            level: "exploration",
            rule: "one seeded run = one tree biased to multi-byte names and siblings that extend one another, one or two versions (the second sometimes interrupted, so that its listing is stitched), through the simulated store. For every band with a head: for S over every directory, every file and drawn non-existent siblings/prefixes, iter_entries(band, S) must equal the reference ancestor filter of iter_entries(band, '/') in order; for S over every directory, restore(only_subtree = S) must produce exactly the sub-map of the full restore under S (nodes compared with all metadata) plus S's parents as plain directories. No fault or interleaving is involved beyond shuffled storage listings: this is the zero-fault configuration of the engine with a refinement oracle. Non-trivial: S has a multi-byte ancestor component or an extension sibling exists; distinct = (tree hash, S).",
            assumptions: &["restoring a single nested file by path is not promised to create its parents and is left out (as in the property)"],
            real: super::REAL_COMPONENTS,
            stub: super::STUB_COMPONENTS,
        },
        runs: |t| if t.thorough() { 150_000 } else { 6_000 },
        run,
        execute,
        expected_probes: &["multibyte_ancestor_selected", "extension_sibling_present", "stitched_listing_filtered", "nonexistent_subtree", "nested_subtree_restored", "file_as_subtree"],
    }
}

fn generate(seed: u64, tier: Tier) -> Scenario {
    let mut r = Rng::new(seed);
    let mut opts = draw_opts(&mut r);
    opts.max_entries_per_hunk = *r.pick(&[2, 3, 100_000]);
    let env = draw_env(&mut r);
    let mut cfg = GenCfg::draw(&mut r, &opts, false);
    cfg.names = *r.pick(&[NameStyle::Unicode, NameStyle::Ordering, NameStyle::Mixed, NameStyle::Unicode]);
    cfg.max_depth = 2 + r.usize(3);
    cfg.symlinks = true;
    let mut g = Gen::new(r.derive("gen"));
    let root_meta = g.root_meta(&cfg);
    let mut model = TreeModel::new(root_meta);
    let n = if tier.thorough() { 6 + r.usize(20) } else { 5 + r.usize(10) };
    let mut b1 = g.burst(&model, &cfg, n);
    for e in &b1 {
        model.apply(e);
    }
    if r.chance(1, 3) {
        for e in g.extension_sibling_scaffold(&model, &cfg) {
            if model.apply(&e) {
                b1.push(e);
            }
        }
    }
    let mut steps = vec![Step::Edit(b1), Step::Backup { opts: opts.clone(), plan: FaultPlan::none() }];
    if r.chance(1, 2) {
        let b2 = g.burst(&model, &cfg, 2 + r.usize(5));
        steps.push(Step::Edit(b2));
        let plan = if r.chance(1, 2) { FaultPlan::single(15 + r.below(40) as u32, Fault::CrashBefore) } else { FaultPlan::none() };
        steps.push(Step::Backup { opts, plan });
    }
    Scenario { check: "C12".into(), seed, env, root_meta, steps, params: serde_json::Value::Null }
}

fn run(seed: u64, tier: Tier, acc: &mut Acc) -> Vec<Found> {
    let sc = generate(seed, tier);
    match execute(&sc, acc) {
        Ok(vs) => {
            acc.sample(sc.compact());
            founds(&sc, vs)
        }
        Err(e) => {
            acc.harness_errors.push(format!("C12 seed {seed}: {e}"));
            vec![]
        }
    }
}

fn execute(sc: &Scenario, acc: &mut Acc) -> Result<Vec<Violation>, String> {
    let prop = "C12";
    let mut out: Vec<Violation> = Vec::new();
    let mut w = World::new(sc.env.clone(), sc.root_meta);
    acc.runs += 1;
    *acc.backends.entry("mem".into()).or_default() += 1;
    for step in &sc.steps {
        exec_step(&mut w, step, acc, false)?;
    }
    let view = w.view();
    let tree_hash = w.store().state_hash();
    let mut r = Rng::new(sc.seed ^ 0x12);
    for (id, bv) in &view.bands {
        if !bv.head_ok() {
            continue;
        }
        let full = w.list(Some(*id), "/", &[]);
        acc.calls += 1;
        let Outcome::Done(Ok(full_entries)) = &full.outcome else {
            out.push(Violation::new(prop, "full_listing_completes", outcome_disc(&full.outcome), outcome_text(&full.outcome)));
            continue;
        };
        let full_paths: Vec<(String, String)> = full_entries.iter().map(|e| (e.apath.to_string(), format!("{:?}", format::dentry_of(e)))).collect();
        if !bv.is_closed() {
            acc.hit("stitched_listing_filtered");
        }
        let all: Vec<String> = full_paths.iter().map(|(p, _)| p.clone()).collect();
        let dirs: Vec<String> = full_entries.iter().filter(|e| format!("{:?}", e.kind) == "Dir").map(|e| e.apath.to_string()).collect();
        // listed entries that are not directories: nothing can be restored below them
        let listing_links: Vec<String> = full_entries.iter().filter(|e| format!("{:?}", e.kind) != "Dir").map(|e| e.apath.to_string()).collect();
        // subtrees to list: every entry, plus non-existent siblings and prefixes
        let mut subs: Vec<String> = all.clone();
        for p in all.iter().take(6) {
            if p != "/" {
                subs.push(format!("{p}x"));
                let cut: String = p.chars().take(p.chars().count() - 1).collect();
                if format::ref_valid(&cut) && cut != "/" {
                    subs.push(cut);
                }
            }
        }
        subs.push("/nonexistent".into());
        subs.sort();
        subs.dedup();
        if subs.len() > 40 {
            r.shuffle(&mut subs);
            subs.truncate(40);
        }
        let has_ext_sibling = all.iter().any(|a| a != "/" && all.iter().any(|b| b != a && b.starts_with(a.as_str()) && !b[a.len()..].starts_with('/')));
        if has_ext_sibling {
            acc.hit("extension_sibling_present");
        }
        for s in &subs {
            acc.evaluations += 1;
            let multibyte_anc = !s.is_ascii() && all.iter().any(|p| p != s && ref_is_ancestor_or_self(s, p));
            if multibyte_anc {
                acc.hit("multibyte_ancestor_selected");
            }
            if !all.contains(s) {
                acc.hit("nonexistent_subtree");
            } else if !dirs.contains(s) {
                acc.hit("file_as_subtree");
            }
            if multibyte_anc || has_ext_sibling {
                acc.nontrivial.insert(rng::mix(&[tree_hash, *id as u64, rng::hash_str(s)]));
            }
            let want: Vec<&(String, String)> = full_paths.iter().filter(|(p, _)| ref_is_ancestor_or_self(s, p)).collect();
            let lr = w.list(Some(*id), s, &[]);
            acc.calls += 1;
            match &lr.outcome {
                Outcome::Done(Ok(es)) => {
                    let got: Vec<(String, String)> = es.iter().map(|e| (e.apath.to_string(), format!("{:?}", format::dentry_of(e)))).collect();
                    let gp: Vec<&String> = got.iter().map(|(p, _)| p).collect();
                    let wp: Vec<&String> = want.iter().map(|(p, _)| p).collect();
                    if gp != wp {
                        let disc = if wp.iter().all(|p| gp.contains(p)) {
                            "textual_sibling_admitted"
                        } else if gp.iter().all(|p| wp.contains(p)) {
                            "descendant_missed"
                        } else {
                            "different"
                        };
                        out.push(Violation::new(prop, "subtree_listing_is_exactly_the_subtree", format!("{disc}:{}", if s.is_ascii() { "ascii" } else { "multibyte" }), format!("b{id:04} subtree {s:?}: got {gp:?}, expected {wp:?}")));
                    } else if got.iter().map(|(_, e)| e).ne(want.iter().map(|(_, e)| e)) {
                        out.push(Violation::new(prop, "subtree_listing_is_exactly_the_subtree", "entries_differ", format!("b{id:04} subtree {s:?}")));
                    }
                }
                other => out.push(Violation::new(prop, "subtree_listing_completes", outcome_disc(other), format!("b{id:04} subtree {s:?}: {}", outcome_text(other)))),
            }
        }
        // restore of subtrees: every directory of the version (only when the full restore is clean)
        let fr = w.restore(&RestoreSpec { band: Some(*id), ..Default::default() });
        acc.calls += 1;
        // C02/C03 judge full restores. When the full restore reported errors (orphans of a
        // stitched interrupted version, entries below a restored symlink) the comparison is
        // still made for every subtree whose own restore is clean: what selecting S restores
        // without complaint, the full restore must hold too.
        let full_clean = fr.clean();
        if !full_clean && !matches!(fr.outcome, Outcome::Done(Ok(()))) {
            continue;
        }
        if !full_clean {
            acc.hit("full_restore_with_errors_compared");
        }
        let mut rdirs = dirs.clone();
        if rdirs.len() > 8 {
            r.shuffle(&mut rdirs);
            rdirs.truncate(8);
        }
        for s in &rdirs {
            acc.evaluations += 1;
            if s.matches('/').count() >= 2 {
                acc.hit("nested_subtree_restored");
            }
            let rr = w.restore(&RestoreSpec { band: Some(*id), subtree: Some(s.clone()), ..Default::default() });
            acc.calls += 1;
            if !full_clean && (!matches!(rr.outcome, Outcome::Done(Ok(()))) || !rr.errors.is_empty()) {
                continue;
            }
            if !matches!(rr.outcome, Outcome::Done(Ok(()))) || !rr.errors.is_empty() {
                out.push(Violation::new(
                    prop,
                    "subtree_restore_completes",
                    format!("{}:{}", outcome_disc(&rr.outcome), rr.errors.first().map(|e| e.variant.clone()).unwrap_or_default()),
                    format!("b{id:04} only_subtree {s:?}: {} errors {:?}", outcome_text(&rr.outcome), rr.errors.iter().map(|e| &e.text).take(2).collect::<Vec<_>>()),
                ));
                continue;
            }
            for (p, n) in &fr.snap {
                // directories that only exist because an orphaned child of a stitched listing
                // needed a parent are not entries of the version: their metadata is whatever
                // mkdir gave them at that moment, in both restores
                if !all.contains(p) {
                    continue;
                }
                if ref_is_ancestor_or_self(s, p) {
                    match rr.snap.get(p) {
                        Some(m) if m == n => {}
                        Some(_) => out.push(Violation::new(prop, "subtree_restore_equals_full_restore", "node_differs", format!("b{id:04} only_subtree {s:?}: {p:?} differs from the full restore"))),
                        None => out.push(Violation::new(prop, "subtree_restore_equals_full_restore", format!("missing:{}", if s.is_ascii() { "ascii" } else { "multibyte" }), format!("b{id:04} only_subtree {s:?}: {p:?} not restored"))),
                    }
                }
            }
            for (p, n) in &rr.snap {
                if ref_is_ancestor_or_self(s, p) {
                    if !fr.snap.contains_key(p) {
                        // the full restore rightly refuses what lies below a symlink it restored,
                        // and cannot create what lies below a path the newer band made a file
                        let below_link = listing_links.iter().any(|l| l != p && ref_is_ancestor_or_self(l, p));
                        if full_clean {
                            out.push(Violation::new(prop, "subtree_restore_equals_full_restore", "extra_inside", format!("b{id:04} only_subtree {s:?}: {p:?} restored but not in the full restore")));
                        } else if !below_link && all.contains(p) {
                            out.push(Violation::new(prop, "subtree_restore_equals_full_restore", "full_restore_lacks_it", format!("b{id:04} only_subtree {s:?}: {p:?} is restored when the subtree is selected but the full restore (which reported errors) does not hold it")));
                        }
                    }
                } else if !(ref_is_ancestor_or_self(p, s) && n.kind == 'd') {
                    out.push(Violation::new(prop, "subtree_restore_nothing_outside", format!("outside:{}", if s.is_ascii() { "ascii" } else { "multibyte" }), format!("b{id:04} only_subtree {s:?}: {p:?} lies outside the subtree and is not one of its parents")));
                }
            }
        }
    }
    let mut seen = BTreeSet::new();
    out.retain(|v| seen.insert(v.signature()));
    Ok(out)
}
