//! C15 — exclusions mean the same thing at backup, list and restore time.

use std::collections::BTreeSet;

use crate::glob::ref_excluded;
use crate::genr::{Gen, GenCfg, draw_opts};
use crate::report::{Acc, CheckInfo, Found, Violation};
use crate::rng::{self, Rng};
use crate::scenario::{Scenario, Step, StepResult, draw_env, exec_step, outcome_disc, outcome_text};
use crate::sim::{FaultPlan, Outcome};
use crate::tree::TreeModel;
use crate::world::{RestoreSpec, World};

use super::{CheckDef, Tier, founds};

pub fn def() -> CheckDef {
    CheckDef {
        info: CheckInfo {
            id: "C15",
            level: "exploration",
            rule: "one seeded run = one generated tree (directories with children, non-ASCII names) and one pattern set of 1-3 globs drawn from the reference grammar using the tree's own names (anchored and unanchored literals, '*', '?', '**' as a whole component, character classes, dir/child). A = entries below the root stored by backup(exclude = E) (independent decoder); B = iter_entries(full backup, exclude = E); C = paths produced by restore(full backup, exclude = E); D = the reference rule applied to the tree. A = B = C is the differential core; = D pins the meaning. No fault or interleaving is involved beyond shuffled storage listings. Non-trivial: E excludes at least one and not all entries, including a directory with children or a non-ASCII name; distinct = (tree hash, pattern set).",
            assumptions: &["patterns stay inside the grammar on which the reference matcher and globset are unambiguous (no braces, no escapes, no '**' glued to text, byte-wise '?')", "no CACHEDIR.TAG in generated trees"],
            real: super::REAL_COMPONENTS,
            stub: super::STUB_COMPONENTS,
        },
        runs: |t| if t.thorough() { 300_000 } else { 12_000 },
        run,
        execute,
        expected_probes: &["excluded_dir_with_children", "excluded_non_ascii", "anchored_pattern", "unanchored_pattern", "doublestar_pattern", "class_pattern", "nothing_excluded", "excluded_some"],
    }
}

fn gen_patterns(r: &mut Rng, paths: &[String]) -> Vec<String> {
    let names: Vec<&str> = paths.iter().filter(|p| p.as_str() != "/").map(|p| p.rsplit('/').next().unwrap()).collect();
    let mut out = Vec::new();
    let n = 1 + r.usize(3);
    for _ in 0..n {
        if names.is_empty() {
            out.push("nothing-matches".to_string());
            continue;
        }
        let name = *r.pick(&names);
        let path = r.pick(paths);
        let first: String = name.chars().take(1).collect();
        let special = |s: &str| s.contains(['[', ']', '*', '?', '{', '}', '\\']);
        if special(name) || special(path) {
            continue;
        }
        let p = match r.below(16) {
            0 => name.to_string(),
            1 => format!("/{name}"),
            2 if path != "/" => path.clone(),
            3 => format!("{first}*"),
            4 => format!("*{}", name.chars().last().unwrap()),
            5 => "?".to_string(),
            6 if first.chars().all(|c| c.is_ascii_alphanumeric()) => format!("[{first}-{first}]*"),
            7 => format!("**/{name}"),
            8 => format!("/**/{name}"),
            9 if path.matches('/').count() >= 2 => {
                // dir/child, unanchored
                let comps: Vec<&str> = path[1..].split('/').collect();
                format!("{}/{}", comps[comps.len() - 2], comps[comps.len() - 1])
            }
            10 => format!("{first}?"),
            // outside the reference grammar (`**` glued to text, braces): only the
            // differential core backup = list = restore is checked for these
            12 => format!("{name}**"),
            13 => format!("/{first}**"),
            14 => format!("{{{name},zzz}}"),
            _ => format!("/{first}*"),
        };
        out.push(p);
    }
    if out.is_empty() {
        out.push("nothing-matches".to_string());
    }
    out
}

fn generate(seed: u64, tier: Tier) -> Scenario {
    let mut r = Rng::new(seed);
    let opts = draw_opts(&mut r);
    let env = draw_env(&mut r);
    let mut cfg = GenCfg::draw(&mut r, &opts, false);
    cfg.max_depth = 2 + r.usize(3);
    let mut g = Gen::new(r.derive("gen"));
    let root_meta = g.root_meta(&cfg);
    let mut model = TreeModel::new(root_meta);
    let n = if tier.thorough() { 5 + r.usize(25) } else { 4 + r.usize(12) };
    let b1 = g.burst(&model, &cfg, n);
    for e in &b1 {
        model.apply(e);
    }
    let paths: Vec<String> = model.nodes.keys().cloned().collect();
    let pats = gen_patterns(&mut r, &paths);
    let mut eopts = opts.clone();
    eopts.exclude = pats;
    Scenario {
        check: "C15".into(),
        seed,
        env,
        root_meta,
        steps: vec![Step::Edit(b1), Step::Backup { opts, plan: FaultPlan::none() }, Step::Backup { opts: eopts, plan: FaultPlan::none() }],
        params: serde_json::Value::Null,
    }
}

fn run(seed: u64, tier: Tier, acc: &mut Acc) -> Vec<Found> {
    let sc = generate(seed, tier);
    match execute(&sc, acc) {
        Ok(vs) => {
            acc.sample(sc.compact());
            founds(&sc, vs)
        }
        Err(e) => {
            acc.harness_errors.push(format!("C15 seed {seed}: {e}"));
            vec![]
        }
    }
}

fn execute(sc: &Scenario, acc: &mut Acc) -> Result<Vec<Violation>, String> {
    let prop = "C15";
    let mut out: Vec<Violation> = Vec::new();
    let mut w = World::new(sc.env.clone(), sc.root_meta);
    acc.runs += 1;
    acc.evaluations += 1;
    *acc.backends.entry("mem".into()).or_default() += 1;
    let mut bands: Vec<(u32, Vec<String>)> = Vec::new();
    for step in &sc.steps {
        let res = exec_step(&mut w, step, acc, false)?;
        if let (StepResult::Backup(b), Step::Backup { opts, .. }) = (&res, step) {
            match (&b.outcome, b.new_band) {
                (Outcome::Done(Ok(_)), Some(nb)) => bands.push((nb, opts.exclude.clone())),
                (other, _) => {
                    out.push(Violation::new(prop, "backup_completes", outcome_disc(other), outcome_text(other)));
                    return Ok(out);
                }
            }
        }
    }
    let Some((full_band, _)) = bands.iter().find(|(_, e)| e.is_empty()).cloned() else {
        return Err("scenario has no full backup".into());
    };
    let Some((ex_band, pats)) = bands.iter().find(|(_, e)| !e.is_empty()).cloned() else {
        return Err("scenario has no excluded backup".into());
    };
    for p in &pats {
        if p.starts_with('/') {
            acc.hit("anchored_pattern");
        } else {
            acc.hit("unanchored_pattern");
        }
        if p.contains("**") {
            acc.hit("doublestar_pattern");
        }
        if p.contains('[') {
            acc.hit("class_pattern");
        }
    }
    let tree: Vec<&String> = w.snap.keys().filter(|p| p.as_str() != "/").collect();
    // D: the reference rule
    let d: BTreeSet<String> = tree.iter().filter(|p| !ref_excluded(&pats, p)).map(|p| (*p).clone()).collect();
    let excluded: Vec<&&String> = tree.iter().filter(|p| ref_excluded(&pats, p)).collect();
    if excluded.is_empty() {
        acc.hit("nothing_excluded");
    } else {
        acc.hit("excluded_some");
    }
    let dir_with_children = excluded.iter().any(|p| w.snap[**p].kind == 'd' && tree.iter().any(|c| c.starts_with(&format!("{p}/"))));
    let non_ascii = excluded.iter().any(|p| !p.is_ascii());
    if dir_with_children {
        acc.hit("excluded_dir_with_children");
    }
    if non_ascii {
        acc.hit("excluded_non_ascii");
    }
    if !excluded.is_empty() && !d.is_empty() && (dir_with_children || non_ascii) {
        acc.nontrivial.insert(rng::mix(&[w.store().state_hash(), rng::hash_str(&format!("{pats:?}"))]));
    }
    // A: what backup(exclude = E) stored
    let view = w.view();
    let a: BTreeSet<String> = view.bands[&ex_band].own_entries().into_iter().map(|e| e.apath).filter(|p| p != "/").collect();
    // B: listing of the full backup with E
    let lr = w.list(Some(full_band), "/", &pats);
    acc.calls += 1;
    let b: BTreeSet<String> = match &lr.outcome {
        Outcome::Done(Ok(es)) => es.iter().map(|e| e.apath.to_string()).filter(|p| p != "/").collect(),
        other => {
            out.push(Violation::new(prop, "listing_completes", outcome_disc(other), outcome_text(other)));
            return Ok(out);
        }
    };
    // C: restore of the full backup with E
    let rr = w.restore(&RestoreSpec { band: Some(full_band), exclude: pats.clone(), ..Default::default() });
    acc.calls += 1;
    if !matches!(rr.outcome, Outcome::Done(Ok(()))) {
        out.push(Violation::new(prop, "restore_completes", outcome_disc(&rr.outcome), outcome_text(&rr.outcome)));
        return Ok(out);
    }
    let c: BTreeSet<String> = rr.snap.keys().filter(|p| p.as_str() != "/").cloned().collect();
    let diff = |x: &BTreeSet<String>, y: &BTreeSet<String>| -> String {
        format!("only in first {:?}, only in second {:?}", x.difference(y).take(4).collect::<Vec<_>>(), y.difference(x).take(4).collect::<Vec<_>>())
    };
    if a != b {
        out.push(Violation::new(prop, "backup_and_list_agree", if a.len() > b.len() { "backup_keeps_more" } else { "list_keeps_more" }, format!("patterns {pats:?}: backup vs list: {}", diff(&a, &b))));
    }
    if b != c {
        out.push(Violation::new(prop, "list_and_restore_agree", if b.len() > c.len() { "list_keeps_more" } else { "restore_keeps_more" }, format!("patterns {pats:?}: list vs restore: {}", diff(&b, &c))));
    }
    let outside_grammar = pats.iter().any(|p| p.contains('{') || p.split('/').any(|c| c.contains("**") && c != "**"));
    if outside_grammar {
        acc.hit("pattern_outside_reference_grammar");
    }
    if a != d && !outside_grammar {
        out.push(Violation::new(prop, "backup_matches_reference_rule", if a.len() > d.len() { "keeps_more_than_rule" } else { "drops_more_than_rule" }, format!("patterns {pats:?}: backup vs rule: {}", diff(&a, &d))));
    }
    Ok(out)
}
