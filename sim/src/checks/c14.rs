//! C14 — work already stored is never stored again.
//! clause 1: an unchanged tree backed up again writes no block and records identical addresses;
//! clause 2: over histories, no block path is written while it already holds content;
//! clause 3: a backup resumed after an interruption at ANY crash point rewrites nothing the
//!           interrupted run stored and reuses its recorded entries (enumeration shared with C03).

use std::collections::BTreeMap;

use serde_json::json;

use crate::format::DEntry;
use crate::report::{Acc, CheckInfo, Found, Violation};
use crate::rng::{self, Rng};
use crate::scenario::{HistoryCfg, Scenario, Step, StepResult, exec_step, gen_history, outcome_disc, outcome_text};
use crate::sim::{FaultPlan, Outcome, Pre, Res};
use crate::world::World;

use super::c03;
use super::{CheckDef, Tier, founds};

pub fn def() -> CheckDef {
    CheckDef {
        info: CheckInfo {
            id: "C14",
            level: "fault_enumeration",
            rule: "seeded runs of three kinds. (1) history, then a completed backup, then a second backup of the untouched tree with independently drawn options: the operation log of the second must hold no write under d/, written_blocks = 0, unmodified_files = number of files, and the decoder must see identical addresses. (2) C02-style histories: no write (or attempted write) to a block path that already holds content. (3) for EVERY crash point k of a backup (crash before k; crash leaving a zero-length file for writes), the resumed backup writes no block path that was non-empty at the crash and re-records identical addresses for every file entry the interrupted run had recorded. Non-trivial: (1) the tree holds a non-empty file, (2) at least two backups stored blocks, (3) the crash fell after the first block or hunk write; distinct by (pre-state hash, clause, k, variant).",
            assumptions: &[
                "re-reading and re-hashing a file whose block turns out to exist is not 'storing'",
                "a zero-length leftover of a killed write may be completed",
            ],
            real: super::REAL_COMPONENTS,
            stub: super::STUB_COMPONENTS,
        },
        runs: |t| if t.thorough() { 5_000 } else { 256 },
        run,
        execute,
        expected_probes: &["clause1_checked", "clause2_checked", "resume_reused_entry", "followup_backup_ok", "dedup_hit"],
    }
}

fn generate(seed: u64, tier: Tier) -> Scenario {
    let mut r = Rng::new(seed);
    match r.below(10) {
        0..=3 => {
            let mut sc = c03::generate(seed, tier, "C14");
            sc.params = json!({"clause": 3, "enumerate": true});
            sc
        }
        4..=6 => {
            let hc = HistoryCfg {
                min_steps: 1,
                max_steps: if tier.thorough() { 10 } else { 6 },
                interrupts: true,
                crash_empty: true,
                deletes: true,
                thorough: tier.thorough(),
                small_blocks: r.chance(1, 2),
            };
            let mut sc = gen_history(&mut r, "C14", seed, &hc);
            let o1 = crate::genr::draw_opts(&mut r);
            let mut o2 = if r.chance(1, 2) { o1.clone() } else { crate::genr::draw_opts(&mut r) };
            // excluding nothing in both, so "the tree" is the same tree
            o2.exclude.clear();
            sc.steps.push(Step::Backup { opts: o1, plan: FaultPlan::none() });
            sc.steps.push(Step::Backup { opts: o2, plan: FaultPlan::none() });
            sc.params = json!({"clause": 1});
            sc
        }
        _ => {
            let hc = HistoryCfg {
                min_steps: 4,
                max_steps: if tier.thorough() { 20 } else { 10 },
                interrupts: true,
                crash_empty: true,
                deletes: true,
                thorough: tier.thorough(),
                small_blocks: r.chance(1, 2),
            };
            let mut sc = gen_history(&mut r, "C14", seed, &hc);
            sc.params = json!({"clause": 2});
            sc
        }
    }
}

fn run(seed: u64, tier: Tier, acc: &mut Acc) -> Vec<Found> {
    let sc = generate(seed, tier);
    let r = if sc.params["clause"] == 3 {
        c03::execute_found(&sc, acc, c03::Mode::Resume).map(|fs| {
            fs.into_iter()
                .map(|mut f| {
                    f.scenario["params"]["clause"] = json!(3);
                    f
                })
                .collect::<Vec<_>>()
        })
    } else {
        execute(&sc, acc).map(|vs| founds(&sc, vs))
    };
    match r {
        Ok(f) => {
            acc.sample(sc.compact());
            f
        }
        Err(e) => {
            acc.harness_errors.push(format!("C14 seed {seed}: {e}"));
            vec![]
        }
    }
}

fn execute(sc: &Scenario, acc: &mut Acc) -> Result<Vec<Violation>, String> {
    match sc.params["clause"].as_u64() {
        Some(3) => c03::execute(sc, acc, c03::Mode::Resume),
        Some(1) => clause1(sc, acc),
        _ => clause2(sc, acc),
    }
}

fn clause1(sc: &Scenario, acc: &mut Acc) -> Result<Vec<Violation>, String> {
    let mut out = Vec::new();
    let mut w = World::new(sc.env.clone(), sc.root_meta);
    acc.runs += 1;
    *acc.backends.entry("mem".into()).or_default() += 1;
    let n = sc.steps.len();
    if n < 2 {
        return Err("clause 1 needs two final backups".into());
    }
    for step in &sc.steps[..n - 2] {
        exec_step(&mut w, step, acc, false)?;
    }
    if w.gc_lock_present() {
        // a stale lock (crashed delete in the prefix): the user breaks it
        w.delete(&[], false, true, FaultPlan::none());
    }
    let StepResult::Backup(b1) = exec_step(&mut w, &sc.steps[n - 2], acc, false)? else {
        return Err("expected backup".into());
    };
    if !matches!(b1.outcome, Outcome::Done(Ok(_))) {
        // cannot set up the precondition; C02 judges fault-free backups that fail
        acc.hit("clause1_precondition_failed");
        return Ok(out);
    }
    let first = b1.new_band.ok_or("first backup made no band")?;
    let StepResult::Backup(b2) = exec_step(&mut w, &sc.steps[n - 1], acc, false)? else {
        return Err("expected backup".into());
    };
    acc.evaluations += 1;
    acc.hit("clause1_checked");
    let files = w.snap.values().filter(|s| s.kind == 'f').count();
    if w.snap.values().any(|s| s.kind == 'f' && !s.data.is_empty()) {
        acc.nontrivial.insert(rng::mix(&[w.store().state_hash(), 1]));
    }
    match &b2.outcome {
        Outcome::Done(Ok(stats)) => {
            if stats.deduplicated_blocks > 0 {
                acc.hit("dedup_hit");
            }
            let log = w.core.log_since(b2.call.log_from);
            for r in log.iter().filter(|r| r.verb == "write" && r.path.starts_with("d/")) {
                out.push(Violation::new("C14", "unchanged_tree_writes_no_block", "block_write", format!("second backup wrote {} ({:?})", &r.path[..20.min(r.path.len())], r.res)));
                break;
            }
            if stats.written_blocks != 0 {
                out.push(Violation::new("C14", "unchanged_tree_writes_no_block", "written_blocks_stat", format!("written_blocks = {}", stats.written_blocks)));
            }
            if stats.unmodified_files != files {
                out.push(Violation::new(
                    "C14",
                    "unchanged_tree_all_files_unmodified",
                    "unmodified_files_stat",
                    format!("unmodified_files = {} but the tree holds {files} files", stats.unmodified_files),
                ));
            }
            if let Some(second) = b2.new_band {
                let view = w.view();
                let a: BTreeMap<String, DEntry> = view.bands[&first].own_entries().into_iter().map(|e| (e.apath.clone(), e)).collect();
                let b: BTreeMap<String, DEntry> = view.bands[&second].own_entries().into_iter().map(|e| (e.apath.clone(), e)).collect();
                for (p, ea) in &a {
                    match b.get(p) {
                        Some(eb) if eb.addrs == ea.addrs => {}
                        Some(_) => out.push(Violation::new("C14", "unchanged_tree_identical_addresses", "different_addrs", format!("{p:?} has different addresses in b{first:04} and b{second:04}"))),
                        None => out.push(Violation::new("C14", "unchanged_tree_identical_addresses", "entry_missing", format!("{p:?} is in b{first:04} but not in b{second:04}"))),
                    }
                }
            }
        }
        other => out.push(Violation::new("C14", "second_backup_completes", outcome_disc(other), outcome_text(other))),
    }
    Ok(out)
}

fn clause2(sc: &Scenario, acc: &mut Acc) -> Result<Vec<Violation>, String> {
    let mut out = Vec::new();
    let mut w = World::new(sc.env.clone(), sc.root_meta);
    acc.runs += 1;
    *acc.backends.entry("mem".into()).or_default() += 1;
    let mut storing_backups = 0;
    for step in &sc.steps {
        let from = w.core.log_len();
        let view_before = if matches!(step, Step::Backup { .. }) { Some(w.view()) } else { None };
        let res = exec_step(&mut w, step, acc, false)?;
        if let StepResult::Backup(b) = &res {
            if let (Outcome::Done(Ok(s)), Some(vb)) = (&b.outcome, &view_before) {
                let reusable = crate::format::expected_reusable_files(vb, &w.snap);
                if s.unmodified_files < reusable {
                    out.push(Violation::new(
                        "C14",
                        "unchanged_files_are_taken_over_from_the_basis",
                        "stored_again",
                        format!("{reusable} files are unchanged against the stitched basis with intact blocks, the backup took over only {}", s.unmodified_files),
                    ));
                }
            }
            if let Outcome::Done(Ok(s)) = &b.outcome {
                if s.deduplicated_blocks > 0 {
                    acc.hit("dedup_hit");
                }
                if s.written_blocks > 0 {
                    storing_backups += 1;
                }
            }
        }
        for r in w.core.log_since(from) {
            if r.verb == "write" && r.path.starts_with("d/") {
                if let Pre::File(n) = r.pre {
                    if n > 0 && matches!(r.res, Res::Ok | Res::Err(_)) {
                        out.push(Violation::new(
                            "C14",
                            "block_written_at_most_once",
                            if r.res == Res::Ok { "overwritten" } else { "rewrite_attempted" },
                            format!("{} already held {n} bytes: {}", &r.path[..20.min(r.path.len())], r.line()),
                        ));
                    }
                }
            }
        }
    }
    acc.evaluations += 1;
    acc.hit("clause2_checked");
    if storing_backups >= 2 {
        acc.nontrivial.insert(rng::mix(&[w.store().state_hash(), 2]));
    }
    let mut seen = std::collections::BTreeSet::new();
    out.retain(|v| seen.insert(v.signature()));
    Ok(out)
}
