//! C01 — backup then restore reproduces the source tree exactly.

use crate::genr::{Gen, GenCfg, draw_opts};
use crate::report::{Acc, CheckInfo, Found, Violation};
use crate::rng::{self, Rng};
use crate::scenario::{self, Scenario, Step, StepResult, draw_env, exec_step, expect_restore_equals, outcome_disc, outcome_text};
use crate::sim::{FaultPlan, Outcome};
use crate::tree::TreeModel;
use crate::world::World;

use super::{CheckDef, Tier, founds};

pub fn def() -> CheckDef {
    CheckDef {
        info: CheckInfo {
            id: "C01",
            level: "exploration",
            rule: "one seeded run = one generated tree (names/sizes/modes/mtimes/owners/symlinks drawn per run, sizes placed around the run's small_file_cap and max_block_size) + one option set + one listing-order/delay flavour, backed up into a fresh simulated archive and restored twice (by id and as latest). A case is non-trivial if the tree holds at least one non-empty file; distinct = distinct hash of (tree snapshot, options).",
            assumptions: &[
                "names are valid UTF-8; owners are ids that have names on this machine; kinds are file/dir/symlink",
                "source and destination are real tmpfs directories driven by the harness, storage is the in-memory stub",
                "harness runs as root, so ownership and setuid/setgid bits are in scope",
            ],
            real: super::REAL_COMPONENTS,
            stub: super::STUB_COMPONENTS,
        },
        runs: |t| if t.thorough() { 200_000 } else { 20_000 },
        run,
        execute,
        expected_probes: &[
            "multi_block_file",
            "combined_block",
            "dedup_hit",
            "empty_file",
            "pre_epoch_fractional_mtime",
            "setuid_or_setgid_file",
            "symlink",
            "nonzero_owner",
            "file_exact_multiple_of_block",
            "list_shuffled",
            "ops_delayed",
        ],
    }
}

pub fn generate(seed: u64, tier: Tier) -> Scenario {
    let mut r = Rng::new(seed);
    let opts = draw_opts(&mut r);
    let env = draw_env(&mut r);
    let cfg = GenCfg::draw(&mut r, &opts, tier.thorough());
    let mut g = Gen::new(r.derive("gen"));
    let root_meta = g.root_meta(&cfg);
    let model = TreeModel::new(root_meta);
    let n = r.usize(cfg.max_burst + 1);
    let burst = g.burst(&model, &cfg, n);
    Scenario {
        check: "C01".into(),
        seed,
        env,
        root_meta,
        steps: vec![
            Step::Edit(burst),
            Step::Backup {
                opts,
                plan: FaultPlan::none(),
            },
        ],
        params: serde_json::Value::Null,
    }
}

fn run(seed: u64, tier: Tier, acc: &mut Acc) -> Vec<Found> {
    let sc = generate(seed, tier);
    match execute(&sc, acc) {
        Ok(vs) => {
            acc.sample(sc.compact());
            founds(&sc, vs)
        }
        Err(e) => {
            acc.harness_errors.push(format!("C01 seed {seed}: {e}"));
            vec![]
        }
    }
}

pub fn probes_from_world(w: &World, acc: &mut Acc, opts: &crate::world::Opts) {
    for (k, n) in w.snap.iter() {
        if n.kind == 'f' {
            if n.mtime.0 < 0 && n.mtime.1 != 0 {
                acc.hit("pre_epoch_fractional_mtime");
            }
            if n.mode & 0o6000 != 0 {
                acc.hit("setuid_or_setgid_file");
            }
            if !n.data.is_empty() && opts.max_block_size > 0 && n.data.len() % opts.max_block_size == 0 && n.data.len() as u64 > opts.small_file_cap {
                acc.hit("file_exact_multiple_of_block");
            }
        }
        if n.kind == 'l' {
            acc.hit("symlink");
        }
        if n.uid != 0 || n.gid != 0 {
            acc.hit("nonzero_owner");
        }
        if !k.is_ascii() {
            acc.hit("non_ascii_name");
        }
    }
    match w.env.list_order {
        crate::store::ListOrder::Sorted => {}
        _ => acc.hit("list_shuffled"),
    }
}

pub fn probes_from_stats(s: &conserve::BackupStats, acc: &mut Acc) {
    if s.multi_block_files > 0 {
        acc.hit("multi_block_file");
    }
    if s.combined_blocks > 0 {
        acc.hit("combined_block");
    }
    if s.deduplicated_blocks > 0 {
        acc.hit("dedup_hit");
    }
    if s.empty_files > 0 {
        acc.hit("empty_file");
    }
    if s.unmodified_files > 0 {
        acc.hit("basis_entry_reused");
    }
    if s.replaced_damaged_blocks > 0 {
        acc.hit("damaged_block_restored_path");
    }
}

pub fn execute(sc: &Scenario, acc: &mut Acc) -> Result<Vec<Violation>, String> {
    let mut out = Vec::new();
    let mut w = World::new(sc.env.clone(), sc.root_meta);
    acc.evaluations += 1;
    acc.runs += 1;
    *acc.backends.entry("mem".into()).or_default() += 1;
    for step in &sc.steps {
        match exec_step(&mut w, step, acc, false)? {
            StepResult::Backup(b) => {
                let Step::Backup { opts, .. } = step else { unreachable!() };
                probes_from_world(&w, acc, opts);
                let nontrivial = w.snap.values().any(|n| n.kind == 'f' && !n.data.is_empty());
                if nontrivial {
                    let mut parts: Vec<u64> = vec![rng::hash_str(&format!("{opts:?}"))];
                    for (k, n) in w.snap.iter() {
                        parts.push(rng::hash_str(k));
                        parts.push(rng::hash_bytes(&n.data));
                        parts.push(rng::mix(&[n.mode as u64, n.mtime.0 as u64, n.mtime.1 as u64, n.uid as u64, n.gid as u64]));
                    }
                    acc.nontrivial.insert(rng::mix(&parts));
                }
                match &b.outcome {
                    Outcome::Done(Ok(stats)) => {
                        probes_from_stats(stats, acc);
                        if stats.errors != 0 || !b.errors.is_empty() {
                            let first = b.errors.first().map(|e| e.variant.clone()).unwrap_or_else(|| "counted_only".into());
                            out.push(Violation::new(
                                "C01",
                                "backup_without_errors",
                                format!("monitor_error:{first}"),
                                format!("backup counted {} errors; monitor: {:?}", stats.errors, b.errors.iter().map(|e| &e.text).collect::<Vec<_>>()),
                            ));
                        }
                    }
                    other => {
                        out.push(Violation::new(
                            "C01",
                            "backup_completes",
                            outcome_disc(other),
                            format!("fault-free backup of a fresh tree: {}", outcome_text(other)),
                        ));
                        continue;
                    }
                }
                acc.states.insert(w.store().state_hash());
                let snap = w.snap.clone();
                let Some(band) = b.new_band else {
                    out.push(Violation::new("C01", "backup_completes", "no_band", "backup returned Ok but created no band"));
                    continue;
                };
                out.extend(expect_restore_equals(&mut w, acc, "C01", Some(band), &snap, opts.owner, &format!("restore of b{band:04}")));
                let latest = expect_restore_equals(&mut w, acc, "C01", None, &snap, opts.owner, "restore of latest");
                // same discriminators as above add nothing; keep only new ones
                for v in latest {
                    if !out.iter().any(|o| o.signature() == v.signature()) {
                        out.push(v);
                    }
                }
            }
            _ => {}
        }
    }
    let _ = scenario::model_summary(&w);
    Ok(out)
}
