//! C04 — storage errors never make the archive record wrong content or a false success.
//! For each sampled scenario, EVERY operation k of the final backup's trace fails once with
//! each of four error kinds; plus seeded multi-fault runs (each operation fails with p).

use std::collections::BTreeSet;

use serde_json::json;

use crate::format::{self, FileView};
use crate::report::{Acc, CheckInfo, Found, Violation, panic_disc};
use crate::rng::{self, Rng};
use crate::scenario::{Scenario, Step, exec_step, expect_restore_equals, outcome_text};
use crate::sim::{EKind, Fault, FaultPlan, Outcome};
use crate::world::{VState, World};

use super::c03;
use super::{CheckDef, Tier, founds};

pub fn def() -> CheckDef {
    CheckDef {
        info: CheckInfo {
            id: "C04",
            level: "fault_enumeration",
            rule: "one seeded run = one scenario (short history, edited tree, options biased to small blocks so that combined blocks flush by size in mid-run) whose final backup is traced fault-free and then re-run from the same pre-state with operation k failing, for EVERY k of the trace and each of {not-found, already-exists, permission-denied, other}, plus, for every write k, three fault bursts (operations k and k+1 both fail: (other, already-exists) and two seeded pairs of kinds), plus 4 (thorough: 16) seeded multi-fault runs in which each operation fails independently with p in {0.02, 0.1}. One evaluation = one faulted backup with all oracles applied (no panic, earlier files byte-identical, every recorded file entry of every band reassembles to that version's source bytes, clean success implies a complete exactly-restoring version). Non-trivial: the injected failure hit a write, a create_dir, or a read/list after the band was created; distinct = distinct (pre-state hash, k, kind).",
            assumptions: &[
                "a failing operation returns its error without taking effect (lost acknowledgements are outside the property's fault model)",
                "a silent fall-back to an older basis after a failed basis read is acceptable (content is stored again)",
            ],
            real: super::REAL_COMPONENTS,
            stub: super::STUB_COMPONENTS,
        },
        runs: |t| if t.thorough() { 1_500 } else { 32 },
        run,
        execute,
        expected_probes: &[
            "failed_combined_block_write",
            "failed_large_block_write",
            "failed_hunk_write",
            "failed_tail_write",
            "failed_head_write",
            "failed_basis_hunk_read",
            "failed_block_dir_list",
            "backup_continued_after_entry_error",
            "backup_aborted_with_error",
            "multi_fault_run",
            "fault_burst_run",
            "combiner_flushed_by_size",
        ],
    }
}

fn run(seed: u64, tier: Tier, acc: &mut Acc) -> Vec<Found> {
    let mut sc = c03::generate(seed, tier, "C04");
    sc.params = json!({"enumerate": true, "multi": if tier.thorough() { 16 } else { 4 }});
    match execute_found(&sc, acc) {
        Ok(f) => {
            acc.sample(sc.compact());
            f
        }
        Err(e) => {
            acc.harness_errors.push(format!("C04 seed {seed}: {e}"));
            vec![]
        }
    }
}

fn execute(sc: &Scenario, acc: &mut Acc) -> Result<Vec<Violation>, String> {
    Ok(execute_found(sc, acc)?.into_iter().map(|f| f.violation).collect())
}

fn execute_found(sc: &Scenario, acc: &mut Acc) -> Result<Vec<Found>, String> {
    let prop = "C04";
    let enumerate = sc.params.get("enumerate").and_then(|v| v.as_bool()).unwrap_or(false);
    let multi = sc.params.get("multi").and_then(|v| v.as_u64()).unwrap_or(0);
    let mut w = World::new(sc.env.clone(), sc.root_meta);
    acc.runs += 1;
    *acc.backends.entry("mem".into()).or_default() += 1;
    let (last, prefix) = sc.steps.split_last().ok_or("empty scenario")?;
    let Step::Backup { opts, plan: given_plan } = last else {
        return Err("last step must be a backup".into());
    };
    for step in prefix {
        exec_step(&mut w, step, acc, false)?;
    }
    if w.gc_lock_present() {
        w.delete(&[], false, true, FaultPlan::none());
    }
    let pre_store = w.store();
    let pre_hash = pre_store.state_hash();
    let mut plans: Vec<FaultPlan> = Vec::new();
    if enumerate {
        let mut probe = w.fork();
        let b = probe.backup(opts, FaultPlan::none(), false);
        acc.calls += 1;
        acc.ops += b.call.ops as u64;
        if let Outcome::Done(Ok(s)) = &b.outcome {
            // did a combined block flush because it reached the block size (not at a hunk boundary)?
            if s.combined_blocks > 1 {
                acc.hit("combiner_flushed_by_size");
            }
        }
        for k in 0..b.call.ops {
            for kind in EKind::ALL {
                plans.push(FaultPlan::single(k, Fault::Fail(kind)));
            }
        }
        let mut r = Rng::new(sc.seed ^ 0x04);
        // fault bursts: two consecutive operations fail (a failed write followed by a failed
        // retry or clean-up of it), for every write of the trace: the pair (other,
        // already-exists), which is what a retried create-new write meets if the first
        // attempt is assumed to have landed, and two seeded pairs
        let probe_log = probe.core.log_since(b.call.log_from);
        for (k, rec) in probe_log.iter().enumerate() {
            if rec.verb != "write" {
                continue;
            }
            let k = k as u32;
            let mut pairs = vec![(EKind::Other, EKind::AlreadyExists)];
            for _ in 0..2 {
                pairs.push((*r.pick(&EKind::ALL), *r.pick(&EKind::ALL)));
            }
            for (k1, k2) in pairs {
                let mut p = FaultPlan::none();
                p.at.insert(k, Fault::Fail(k1));
                p.at.insert(k + 1, Fault::Fail(k2));
                plans.push(p);
            }
        }
        for _ in 0..multi {
            let mut p = FaultPlan::none();
            p.fail_each = Some((r.next_u64(), *r.pick(&[20u32, 100])));
            plans.push(p);
        }
        acc.exhaustive_within_scenario = true;
        if super::cap_plans(&mut plans, super::plan_cap(2 * b.call.ops as usize, 3000), sc.seed) {
            acc.exhaustive_within_scenario = false;
            acc.hit("enumeration_capped");
        }
    } else {
        plans.push(given_plan.clone());
    }
    let mut founds_v: Vec<Found> = Vec::new();
    for plan in plans {
        let mut cw = w.fork();
        let mut out: Vec<Violation> = Vec::new();
        let b = cw.backup(opts, plan.clone(), false);
        acc.calls += 1;
        acc.evaluations += 1;
        acc.ops += b.call.ops as u64;
        acc.faults_of(&b.call.fired);
        if plan.fail_each.is_some() {
            acc.hit("multi_fault_run");
        }
        if plan.at.len() > 1 {
            acc.hit("fault_burst_run");
        }
        let log = cw.core.log_since(b.call.log_from);
        let band_created = log.iter().any(|r| r.verb == "mkdir" && r.mutated() && format::parse_band_dir(&r.path).is_some());
        let new_dir = b.new_band.map(format::band_dir_name).unwrap_or_else(|| "\u{0}".into());
        for r in log.iter().filter(|r| matches!(r.res, crate::sim::Res::Injected(_))) {
            let nontrivial = matches!(r.verb, "write" | "mkdir") || band_created;
            if nontrivial {
                if let Some((k, Fault::Fail(kind))) = b.call.fired.first() {
                    acc.nontrivial.insert(rng::mix(&[pre_hash, *k as u64, *kind as u64, plan.fail_each.map(|p| p.0).unwrap_or(0)]));
                }
            }
            if r.verb == "write" && r.path.starts_with("d/") {
                // a combined block is one that more than one entry points into; approximate by size class
                acc.hit("failed_block_write");
                if r.len < opts.max_block_size.max(1) * 2 && opts.small_file_cap > 0 {
                    acc.hit("failed_combined_block_write");
                } else {
                    acc.hit("failed_large_block_write");
                }
            }
            if r.verb == "write" && r.path.contains("/i/") {
                acc.hit("failed_hunk_write");
            }
            if r.path.ends_with("BANDTAIL") {
                acc.hit("failed_tail_write");
            }
            if r.path.ends_with("BANDHEAD") && r.verb == "write" {
                acc.hit("failed_head_write");
            }
            if r.verb == "read" && r.path.contains("/i/") && !r.path.starts_with(&new_dir) {
                acc.hit("failed_basis_hunk_read");
            }
            if r.verb == "list" && r.path.starts_with('d') {
                acc.hit("failed_block_dir_list");
            }
        }
        match &b.outcome {
            Outcome::Panicked(p) => out.push(Violation::new(
                prop,
                "backup_no_panic",
                panic_disc(p),
                format!("backup under {:?} panicked at {}:{}: {}", b.call.fired, p.file, p.line, p.msg),
            )),
            Outcome::Hung => out.push(Violation::new(prop, "backup_terminates", "hung", format!("backup under {:?} exhausted the operation budget", b.call.fired))),
            Outcome::Done(Ok(s)) if s.errors > 0 => acc.hit("backup_continued_after_entry_error"),
            Outcome::Done(Err(_)) => acc.hit("backup_aborted_with_error"),
            _ => {}
        }
        let st = cw.store();
        acc.states.insert(st.state_hash());
        // earlier versions untouched: every file that existed before is byte-identical
        for (p, bytes) in pre_store.files() {
            // a zero-length leftover of an earlier killed write may be completed
            if bytes.is_empty() {
                continue;
            }
            match st.file(p) {
                Some(nb) if nb == bytes => {}
                Some(_) => out.push(Violation::new(prop, "earlier_files_untouched", "altered", format!("{p} changed during the faulted backup"))),
                None => out.push(Violation::new(prop, "earlier_files_untouched", "removed", format!("{p} removed during the faulted backup"))),
            }
        }
        // every recorded file entry of every band reassembles to that version's source bytes
        let view = format::decode(&st);
        for (id, bv) in &view.bands {
            let Some(vm) = cw.versions.get(id) else { continue };
            if vm.state == VState::Deleted {
                continue;
            }
            for (hn, h) in &bv.hunks {
                if let FileView::Bad(m) = h {
                    out.push(Violation::new(prop, "recorded_hunks_decode", "undecodable", format!("b{id:04} hunk {hn}: {m}")));
                }
            }
            for e in bv.own_entries() {
                if e.kind != "File" {
                    continue;
                }
                let Some(src) = vm.snap.get(&e.apath) else {
                    out.push(Violation::new(prop, "recorded_entry_exists_in_source", "phantom", format!("b{id:04} records {:?} which the source did not hold", e.apath)));
                    continue;
                };
                match format::reassemble(&view, &e) {
                    Ok(bytes) if src.kind == 'f' && bytes == *src.data => {}
                    Ok(bytes) => out.push(Violation::new(
                        prop,
                        "recorded_entry_has_source_bytes",
                        if src.kind != 'f' {
                            "kind".to_string()
                        } else {
                            crate::tree::content_diff_class(&src.data, &bytes).to_string()
                        },
                        format!("b{id:04} {:?}: recorded addresses give {} bytes that are not the file's {} bytes", e.apath, bytes.len(), src.data.len()),
                    )),
                    Err(why) => out.push(Violation::new(prop, "recorded_entry_has_source_bytes", format!("dangling:{why}"), format!("b{id:04} {:?}", e.apath))),
                }
            }
        }
        // clean success implies a complete version that restores the whole source exactly
        if b.clean_success() {
            match b.new_band {
                Some(nb) if cw.versions[&nb].state == VState::Complete => {
                    let snap = cw.snap.clone();
                    let vs = expect_restore_equals(&mut cw, acc, prop, Some(nb), &snap, opts.owner, &format!("backup reported clean success under {:?}; restore of b{nb:04}", b.call.fired));
                    for mut v in vs {
                        v.oracle = format!("clean_success_{}", v.oracle);
                        out.push(v);
                    }
                }
                _ => out.push(Violation::new(prop, "clean_success_means_complete", "no_complete_band", format!("backup under {:?} reported clean success without a complete version", b.call.fired))),
            }
        }
        // every previously complete version still restores (cheap spot check on the newest one)
        if let Some(id) = cw.complete_versions().into_iter().filter(|i| Some(*i) != b.new_band).next_back() {
            let v = cw.versions[&id].clone();
            out.extend(expect_restore_equals(&mut cw, acc, prop, Some(id), &v.snap, v.opts.owner, &format!("after faulted backup: restore of b{id:04}")));
        }
        if !out.is_empty() {
            let mut fsc = sc.clone();
            // an explicit plan: the faults that actually fired
            let mut explicit = FaultPlan::none();
            for (k, f) in &b.call.fired {
                explicit.at.insert(*k, *f);
            }
            if explicit.at.is_empty() {
                explicit = plan.clone();
            }
            *fsc.steps.last_mut().unwrap() = Step::Backup {
                opts: opts.clone(),
                plan: explicit,
            };
            fsc.params = json!({"enumerate": false});
            let mut seen = BTreeSet::new();
            out.retain(|v| seen.insert(v.signature()));
            let _ = outcome_text(&b.outcome);
            founds_v.extend(founds(&fsc, out));
        }
    }
    Ok(founds_v)
}
