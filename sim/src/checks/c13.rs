//! C13 — placeholder, filled in below.
use crate::report::{Acc, CheckInfo, Found, Violation};
use crate::scenario::Scenario;
use super::{CheckDef, Tier};
pub fn def() -> CheckDef {
    CheckDef { info: CheckInfo { id: "C13", level: "exploration", rule: "", assumptions: &[], real: super::REAL_COMPONENTS, stub: super::STUB_COMPONENTS }, runs: |_| 1, run, execute, expected_probes: &[] }
}
fn run(_seed: u64, _tier: Tier, _acc: &mut Acc) -> Vec<Found> { vec![] }
pub fn execute(_sc: &Scenario, _acc: &mut Acc) -> Result<Vec<Violation>, String> { Ok(vec![]) }
