//! C13 — everything written conforms to the documented 0.6 format (independent decoder).

use crate::report::{Acc, CheckInfo, Found};

use super::c02::{Mode, generate, run_history};
use super::{CheckDef, Tier, founds};

pub fn def() -> CheckDef {
    CheckDef {
        info: CheckInfo {
            id: "C13",
            level: "exploration",
            rule: "one seeded run = one history as in C02 (all option combinations, backups killed before operation k or leaving a zero-length file, deletes, gc); after every archive-changing step the raw store is decoded by the harness's own Snappy/JSON/BLAKE2b reader and checked against doc/format.md (hunk numbering, ordering within and across hunks, tail hunk count, block naming/placement/hash, address ranges, sizes vs the snapshot, kinds/targets). Non-trivial: the history produced at least two archive states; distinct = distinct sequence of store state hashes.",
            assumptions: &[
                "zero-length files are accepted only in runs that injected the crash variant which leaves them",
                "the decoder shares the snap, serde_json and blake2-rfc crates with Conserve (trusted base) but none of Conserve's code",
            ],
            real: super::REAL_COMPONENTS,
            stub: super::STUB_COMPONENTS,
        },
        runs: |t| if t.thorough() { 300_000 } else { 15_000 },
        run,
        execute: |sc, acc| run_history(sc, acc, Mode::Conformance),
        expected_probes: &["interrupted_backup", "delete_real", "combined_block", "multi_block_file", "headless_newest_band", "more_than_10000_hunks"],
    }
}

fn run(seed: u64, tier: Tier, acc: &mut Acc) -> Vec<Found> {
    let sc = if seed % 1500 == 7 {
        acc.hit("more_than_10000_hunks");
        crate::scenario::many_hunks("C13", seed)
    } else {
        generate(seed, tier, "C13")
    };
    match run_history(&sc, acc, Mode::Conformance) {
        Ok(vs) => {
            acc.sample(sc.compact());
            founds(&sc, vs)
        }
        Err(e) => {
            acc.harness_errors.push(format!("C13 seed {seed}: {e}"));
            vec![]
        }
    }
}
