//! C13 — everything written conforms to the documented 0.6 format (independent decoder).

use crate::report::{Acc, CheckInfo, Found};

use super::c02::{Mode, generate, run_history};
use super::{CheckDef, Tier, founds};

pub fn def() -> CheckDef {
    CheckDef {
        info: CheckInfo {
            id: "C13",
            level: "exploration",
            rule: "one seeded run = one history as in C02 (all option combinations, backups killed before operation k or leaving a zero-length file, deletes, gc); after every archive-changing step the raw store is decoded by the harness's own Snappy/JSON/BLAKE2b reader and checked against doc/format.md (hunk numbering, ordering within and across hunks, tail hunk count, block naming/placement/hash, address ranges, sizes vs the snapshot, kinds/targets). Non-trivial: the history produced at least two archive states; distinct = distinct sequence of store state hashes.",
            assumptions: &[
                "zero-length files are accepted only in runs that injected the crash variant which leaves them",
                "the decoder shares the snap, serde_json and blake2-rfc crates with Conserve (trusted base) but none of Conserve's code",
            ],
            real: super::REAL_COMPONENTS,
            stub: super::STUB_COMPONENTS,
        },
        runs: |t| if t.thorough() { 300_000 } else { 15_000 },
        run,
        execute: |sc, acc| run_history(sc, acc, Mode::Conformance),
        expected_probes: &["interrupted_backup", "delete_real", "combined_block", "multi_block_file", "headless_newest_band", "more_than_10000_hunks"],
    }
}

/// More index hunks than one index subdirectory holds (10 000): only reachable with a tree
/// of that many entries, so it is a scenario of its own, run for one seed in about 1 500.
fn many_hunks(seed: u64) -> crate::scenario::Scenario {
    use crate::scenario::{Scenario, Step};
    use crate::tree::{EditOp, Meta};
    let meta = Meta { mode: 0o644, mtime: (1_600_000_000, 0), uid: 0, gid: 0 };
    let mut opts = crate::world::Opts::default();
    opts.max_entries_per_hunk = 1;
    Scenario {
        check: "C13".into(),
        seed,
        env: crate::world::Env::default(),
        root_meta: Meta { mode: 0o755, mtime: (1_600_000_000, 0), uid: 0, gid: 0 },
        steps: vec![
            Step::Edit(vec![EditOp::BulkEmptyFiles { dir: "/".into(), prefix: "f".into(), count: 10_003 + (seed % 5) as u32, meta }]),
            Step::Backup { opts, plan: crate::sim::FaultPlan::none() },
        ],
        params: serde_json::json!({"many_hunks": true}),
    }
}

fn run(seed: u64, tier: Tier, acc: &mut Acc) -> Vec<Found> {
    let sc = if seed % 1500 == 7 {
        acc.hit("more_than_10000_hunks");
        many_hunks(seed)
    } else {
        generate(seed, tier, "C13")
    };
    match run_history(&sc, acc, Mode::Conformance) {
        Ok(vs) => {
            acc.sample(sc.compact());
            founds(&sc, vs)
        }
        Err(e) => {
            acc.harness_errors.push(format!("C13 seed {seed}: {e}"));
            vec![]
        }
    }
}
