//! C16 — restore stays inside its destination and never clobbers by default.

use std::collections::BTreeSet;
use std::os::unix::fs::PermissionsExt;
use std::path::Path;

use crate::genr::{Gen, GenCfg, draw_opts};
use crate::report::{Acc, CheckInfo, Found, Violation};
use crate::rng::{self, Rng};
use crate::scenario::{Scenario, Step, draw_env, exec_step, outcome_disc, outcome_text};
use crate::sim::{FaultPlan, Outcome};
use crate::tree::{self, EditOp, NodeKind, TNode, TreeModel};
use crate::world::{RestoreSpec, World};

use super::{CheckDef, Tier, founds};

pub fn def() -> CheckDef {
    CheckDef {
        info: CheckInfo {
            id: "C16",
            level: "exploration",
            rule: "one seeded run = one generated tree whose symlinks point at sentinel files and directories beside the restore destination (relative '../outside/..', absolute, '..', '.', at directories, at other entries of the tree, dangling), one or two complete versions through the simulated store, (one run in five: a second version in which a directory was replaced by a symlink pointing outside and whose backup was killed right before its tail), then restores into box/dest of every version with drawn subtree / exclusion selections and the destination absent, empty or pre-populated (with and without overwrite). Oracle: a recursive lstat+content snapshot of box/ minus dest/ (content, mode, owner, mtime of every sentinel, of outside/ and of box/ itself) is identical before and after; without overwrite a non-empty destination gives DestinationNotEmpty and is byte- and metadata-identical afterwards. Non-trivial: the restored selection contains a symlink whose target resolves to an existing sentinel; distinct = (tree hash, selection, destination state).",
            assumptions: &["one run in five restores an INTERRUPTED version built so that its stitched listing holds a symlink from the newer band and the old directory's contents from the older one ('any version of any conserve-written archive')"],
            real: super::REAL_COMPONENTS,
            stub: super::STUB_COMPONENTS,
        },
        runs: |t| if t.thorough() { 200_000 } else { 10_000 },
        run,
        execute,
        expected_probes: &["dest_prepopulated_only_hidden_names", "link_to_sentinel_file", "link_to_sentinel_dir", "link_absolute", "link_dotdot", "dest_prepopulated_refused", "dest_absent", "overwrite_restore", "subtree_selection", "exclude_selection"],
    }
}

const BOX: &str = "@BOX@";

fn generate(seed: u64, tier: Tier) -> Scenario {
    let mut r = Rng::new(seed);
    let opts = draw_opts(&mut r);
    let mut env = draw_env(&mut r);
    env.delay = None;
    let mut cfg = GenCfg::draw(&mut r, &opts, false);
    cfg.symlinks = false;
    // owners with only one nameable half: restore has nothing to set for the other half
    cfg.unnamed_owners = cfg.owners;
    cfg.max_depth = 1 + r.usize(3);
    let mut g = Gen::new(r.derive("gen"));
    let root_meta = g.root_meta(&cfg);
    let mut model = TreeModel::new(root_meta);
    let n = if tier.thorough() { 4 + r.usize(14) } else { 3 + r.usize(8) };
    let mut b1 = g.burst(&model, &cfg, n);
    for e in &b1 {
        model.apply(e);
    }
    // symlinks aimed at the sentinels
    let dirs = model.dirs();
    let nlinks = 1 + r.usize(5);
    for i in 0..nlinks {
        let d = r.pick(&dirs).clone();
        let depth = if d == "/" { 0 } else { d.matches('/').count() };
        let up = "../".repeat(depth + 1);
        let target = match r.below(9) {
            0 => format!("{up}outside/f"),
            1 => format!("{up}outside/d"),
            2 => format!("{BOX}/outside/f"),
            3 => format!("{BOX}/outside/d"),
            4 => "..".to_string(),
            5 => ".".to_string(),
            6 => format!("{up}outside"),
            7 => format!("{up}outside/d/inner"),
            _ => "dangling".to_string(),
        };
        let mut meta = g.meta(&cfg, false);
        meta.mode = 0o777;
        // non-root owners make a followed chown visible
        meta.uid = 1 + r.below(3) as u32;
        meta.gid = 1 + r.below(3) as u32;
        let e = EditOp::Put { path: tree::join_apath(&d, &format!("link{i}")), node: TNode { kind: NodeKind::Symlink { target }, meta } };
        if model.apply(&e) {
            b1.push(e);
        }
    }
    let mut steps = vec![Step::Edit(b1), Step::Backup { opts: opts.clone(), plan: FaultPlan::none() }];
    if r.chance(1, 5) {
        // "any version" includes interrupted ones: a directory of the first version is replaced
        // by a symlink that points outside, everything else below the root goes away, and the
        // second backup is killed right before its tail; the stitched listing then holds the
        // link from the new band and the old directory's contents from the old one.
        let victim = model.dirs().into_iter().find(|d| d != "/" && d.matches('/').count() == 1 && model.subtree_keys(d).len() > 1);
        if let Some(d) = victim {
            let mut es: Vec<EditOp> = model.dirs().into_iter().filter(|x| x != "/" && x.matches('/').count() == 1).map(|x| EditOp::Remove { path: x }).collect();
            let mut meta = g.meta(&cfg, false);
            meta.mode = 0o777;
            if r.chance(1, 3) {
                // an owner of which only the group has a name on this machine
                meta.uid = 54_321;
                meta.gid = 1;
            }
            let target = if r.chance(1, 2) { "../outside/d".to_string() } else { format!("{BOX}/outside/d") };
            es.push(EditOp::Put { path: d.clone(), node: TNode { kind: NodeKind::Symlink { target }, meta } });
            steps.push(Step::Edit(es));
            let mut plan = FaultPlan::none();
            plan.crash_on = Some(("write".into(), "*BANDTAIL".into()));
            let mut o2 = opts.clone();
            o2.max_entries_per_hunk = 2;
            steps.push(Step::Backup { opts: o2, plan });
            return Scenario { check: "C16".into(), seed, env, root_meta, steps, params: serde_json::json!({"restores": 2, "rseed": r.next_u64(), "interrupted": true}) };
        }
    }
    if r.chance(1, 3) {
        let b2 = g.burst(&model, &cfg, 1 + r.usize(4));
        steps.push(Step::Edit(b2));
        steps.push(Step::Backup { opts, plan: FaultPlan::none() });
    }
    Scenario { check: "C16".into(), seed, env, root_meta, steps, params: serde_json::json!({"restores": 3 + r.usize(3), "rseed": r.next_u64()}) }
}

fn run(seed: u64, tier: Tier, acc: &mut Acc) -> Vec<Found> {
    let sc = generate(seed, tier);
    match execute(&sc, acc) {
        Ok(vs) => {
            acc.sample(sc.compact());
            founds(&sc, vs)
        }
        Err(e) => {
            acc.harness_errors.push(format!("C16 seed {seed}: {e}"));
            vec![]
        }
    }
}

fn set_meta(p: &Path, mode: u32, uid: u32, gid: u32, mtime: i64) -> std::io::Result<()> {
    std::os::unix::fs::lchown(p, Some(uid), Some(gid))?;
    std::fs::set_permissions(p, std::fs::Permissions::from_mode(mode))?;
    let t = filetime::FileTime::from_unix_time(mtime, 0);
    filetime::set_file_times(p, t, t)
}

/// box/{dest?, outside/{f, d/{inner}}} with fixed, distinctive metadata.
fn make_box(bx: &Path) -> std::io::Result<()> {
    std::fs::create_dir_all(bx.join("outside/d"))?;
    std::fs::write(bx.join("outside/f"), b"sentinel file content")?;
    std::fs::write(bx.join("outside/d/inner"), b"inner sentinel")?;
    set_meta(&bx.join("outside/d/inner"), 0o640, 0, 0, 1_111_111_111)?;
    set_meta(&bx.join("outside/f"), 0o604, 0, 0, 1_222_222_222)?;
    set_meta(&bx.join("outside/d"), 0o750, 0, 0, 1_333_333_333)?;
    set_meta(&bx.join("outside"), 0o751, 0, 0, 1_444_444_444)?;
    Ok(())
}

fn snapshot_outside(bx: &Path) -> std::io::Result<tree::Snap> {
    let mut s = tree::walk(bx)?;
    s.retain(|k, _| !(k == "/dest" || k.starts_with("/dest/")));
    // the box directory's own mtime changes when dest is created inside it: that is the harness
    if let Some(root) = s.get_mut("/") {
        root.mtime = (0, 0);
    }
    Ok(s)
}

fn execute(sc: &Scenario, acc: &mut Acc) -> Result<Vec<Violation>, String> {
    let prop = "C16";
    let mut out: Vec<Violation> = Vec::new();
    let mut w = World::new(sc.env.clone(), sc.root_meta);
    acc.runs += 1;
    *acc.backends.entry("mem".into()).or_default() += 1;
    // The sandbox path ends up inside the archive (absolute symlink targets are recorded), so it
    // must be a function of the scenario, not of the process id or of which worker runs it.
    let box_base = std::path::PathBuf::from(if std::path::Path::new("/dev/shm").is_dir() { "/dev/shm" } else { "/tmp" }).join(format!("verif-box-{:016x}", sc.seed));
    // ... which means two simcheck processes running the same seed at the same time would share
    // it: an advisory lock held for the scenario keeps them apart (released when the file is
    // dropped at the end of this function).
    let lock_path = box_base.with_file_name(format!("verif-box-lock-{:03x}", sc.seed % 1024));
    let lock_file = std::fs::OpenOptions::new().create(true).truncate(false).write(true).open(&lock_path).map_err(|e| format!("sandbox lock {lock_path:?}: {e}"))?;
    lock_file.lock().map_err(|e| format!("sandbox lock {lock_path:?}: {e}"))?;
    let _ = std::fs::remove_dir_all(&box_base);
    for step in &sc.steps {
        // resolve the absolute-target placeholder
        let step2 = match step {
            Step::Edit(es) => Step::Edit(
                es.iter()
                    .map(|e| match e {
                        EditOp::Put { path, node: TNode { kind: NodeKind::Symlink { target }, meta } } if target.contains(BOX) => EditOp::Put {
                            path: path.clone(),
                            node: TNode { kind: NodeKind::Symlink { target: target.replace(BOX, &box_base.join("0").to_string_lossy()) }, meta: *meta },
                        },
                        other => other.clone(),
                    })
                    .collect(),
            ),
            other => other.clone(),
        };
        exec_step(&mut w, &step2, acc, false)?;
    }
    let mut complete = w.complete_versions();
    let with_interrupted = sc.params.get("interrupted").and_then(|v| v.as_bool()).unwrap_or(false);
    if with_interrupted {
        // only the interrupted band(s): that is what this family is about
        let inter: Vec<u32> = w.versions.iter().filter(|(_, v)| v.state == crate::world::VState::Interrupted).map(|(k, _)| *k).collect();
        if !inter.is_empty() {
            complete = inter;
            acc.hit("interrupted_version_restored");
        }
    }
    if complete.is_empty() {
        return Ok(out);
    }
    let n_restores = sc.params.get("restores").and_then(|v| v.as_u64()).unwrap_or(3);
    let mut r = Rng::new(sc.params.get("rseed").and_then(|v| v.as_u64()).unwrap_or(sc.seed));
    let tree_hash = w.store().state_hash();
    for i in 0..n_restores {
        // absolute link targets were resolved against box/0: reuse that one directory
        let bx = box_base.join("0");
        let _ = std::fs::remove_dir_all(&bx);
        make_box(&bx).map_err(|e| format!("make_box: {e}"))?;
        let dest = bx.join("dest");
        let band = *r.pick(&complete);
        let snap = w.versions[&band].snap.clone();
        let dirs: Vec<&String> = snap.iter().filter(|(_, n)| n.kind == 'd').map(|(k, _)| k).collect();
        let subtree = if r.chance(1, 3) { Some((*r.pick(&dirs)).clone()).filter(|s| s != "/") } else { None };
        let exclude = if r.chance(1, 4) {
            vec![snap.keys().filter(|k| k.as_str() != "/").map(|k| k.rsplit('/').next().unwrap().to_string()).find(|n| !n.contains(['[', ']', '*', '?', '{', '}', '!'])).unwrap_or("zzz".into())]
        } else {
            vec![]
        };
        if subtree.is_some() {
            acc.hit("subtree_selection");
        }
        if !exclude.is_empty() {
            acc.hit("exclude_selection");
        }
        let (subtree, exclude) = if with_interrupted { (None, vec![]) } else { (subtree, exclude) };
        let dest_state = if with_interrupted { r.below(2) } else { r.below(4) }; // 0 absent, 1 empty, 2 pre-populated no overwrite, 3 pre-populated + overwrite
        match dest_state {
            0 => acc.hit("dest_absent"),
            1 => std::fs::create_dir(&dest).map_err(|e| e.to_string())?,
            _ => {
                // what is already there: ordinary names, only dot-names, a single entry, or a
                // name that the version also holds (so that a wrongful restore would clobber it)
                let flavour = r.below(4);
                let clash = snap.iter().find(|(k, n)| n.kind == 'f' && k.matches('/').count() == 1).map(|(k, _)| k[1..].to_string());
                let (file_name, link_name): (String, Option<&str>) = match flavour {
                    0 => ("existing".into(), Some("existing-link")),
                    1 => (".existing".into(), Some(".existing-link")),
                    2 => (".profile".into(), None),
                    _ => (clash.unwrap_or_else(|| "existing".into()), None),
                };
                if file_name.starts_with('.') {
                    acc.hit("dest_prepopulated_only_hidden_names");
                }
                std::fs::create_dir(&dest).map_err(|e| e.to_string())?;
                std::fs::write(dest.join(&file_name), b"already here").map_err(|e| e.to_string())?;
                if let Some(l) = link_name {
                    std::os::unix::fs::symlink("../outside/f", dest.join(l)).map_err(|e| e.to_string())?;
                }
                set_meta(&dest.join(&file_name), 0o600, 0, 0, 1_555_555_555).map_err(|e| e.to_string())?;
            }
        }
        let overwrite = dest_state == 3;
        if overwrite {
            acc.hit("overwrite_restore");
        }
        // which sentinels do the selected links reach?
        let mut reaches = false;
        for (p, n) in snap.iter() {
            if n.kind == 'l' && subtree.as_ref().map(|s| crate::format::ref_is_ancestor_or_self(s, p)).unwrap_or(true) {
                let t = &n.target;
                if t.ends_with("outside/f") || t.ends_with("outside/d/inner") {
                    acc.hit("link_to_sentinel_file");
                    reaches = true;
                }
                if t.ends_with("outside/d") || t.ends_with("outside") {
                    acc.hit("link_to_sentinel_dir");
                    reaches = true;
                }
                if t.starts_with('/') {
                    acc.hit("link_absolute");
                }
                if t == ".." {
                    acc.hit("link_dotdot");
                    reaches = true;
                }
            }
        }
        if reaches {
            acc.nontrivial.insert(rng::mix(&[tree_hash, band as u64, rng::hash_str(&format!("{subtree:?}{exclude:?}{dest_state}"))]));
        }
        let before = snapshot_outside(&bx).map_err(|e| format!("snapshot: {e}"))?;
        let dest_before = if dest.exists() { Some(tree::walk(&dest).map_err(|e| e.to_string())?) } else { None };
        let rr = w.restore_into(&RestoreSpec { band: Some(band), subtree: subtree.clone(), exclude: exclude.clone(), overwrite }, Some(&dest));
        acc.calls += 1;
        acc.evaluations += 1;
        acc.ops += rr.call.ops as u64;
        let after = snapshot_outside(&bx).map_err(|e| format!("snapshot: {e}"))?;
        let what = format!("restore #{i} of b{band:04} subtree={subtree:?} exclude={exclude:?} dest_state={dest_state}");
        match &rr.outcome {
            Outcome::Panicked(_) | Outcome::Hung => out.push(Violation::new(prop, "restore_completes", outcome_disc(&rr.outcome), format!("{what}: {}", outcome_text(&rr.outcome)))),
            _ => {}
        }
        // is this the stitched listing of an interrupted band that holds a symlink from the
        // newer band and entries below the same path from the older one?
        let mixed = with_interrupted && {
            let view = w.view();
            let l = crate::format::ref_stitch(&view, band);
            l.iter().any(|(_, e)| e.kind == "Symlink" && l.iter().any(|(_, q)| q.apath.starts_with(&format!("{}/", e.apath))))
        };
        for m in tree::compare_snaps(&before, &after, tree::CmpOpts::default()) {
            if mixed {
                acc.hit("interrupted_version_wrote_outside");
                out.push(Violation::new(
                    prop,
                    "nothing_outside_destination_changes",
                    "interrupted_version:written_through_symlink_of_newer_band",
                    format!("{what}: box{} {}: {}", m.path, m.field, m.detail),
                ));
                break;
            }
            out.push(Violation::new(
                prop,
                "nothing_outside_destination_changes",
                format!("{}:{}", m.field, if m.path.contains("/d") || m.path == "/outside" { "sentinel_dir" } else { "sentinel_file" }),
                format!("{what}: box{} {}: {}", m.path, m.field, m.detail),
            ));
        }
        if dest_state == 2 {
            match &rr.outcome {
                Outcome::Done(Err(e)) if e.variant == "DestinationNotEmpty" => acc.hit("dest_prepopulated_refused"),
                other => out.push(Violation::new(prop, "non_empty_destination_refused", outcome_disc(other), format!("{what}: {}", outcome_text(other)))),
            }
            let dest_after = tree::walk(&dest).map_err(|e| e.to_string())?;
            if Some(&dest_after) != dest_before.as_ref() {
                out.push(Violation::new(prop, "refused_restore_leaves_destination_untouched", "changed", format!("{what}: destination changed although the restore was refused")));
            }
        }
        let _ = std::fs::remove_dir_all(&bx);
    }
    let _ = std::fs::remove_dir_all(&box_base);
    let mut seen = BTreeSet::new();
    out.retain(|v| seen.insert(v.signature()));
    Ok(out)
}
