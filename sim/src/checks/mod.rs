//! One module per property. Each exposes `generate` (seed -> explicit scenario) and
//! `execute` (scenario -> violations); both the search and the replay go through `execute`.

use serde_json::Value;

use crate::report::{Acc, CheckInfo, Found, Violation};
use crate::scenario::Scenario;

pub mod c01;
pub mod c02;
pub mod c03;
pub mod c04;
pub mod c05;
pub mod c06;
pub mod c07;
pub mod c08;
pub mod c09;
pub mod c10;
pub mod c11;
pub mod c12;
pub mod c13;
pub mod c14;
pub mod c15;
pub mod c16;
pub mod c17;
pub mod c18;

#[derive(Clone, Copy, Debug, PartialEq, Eq)]
pub enum Tier {
    Quick,
    Thorough,
}

impl Tier {
    pub fn name(self) -> &'static str {
        match self {
            Tier::Quick => "quick",
            Tier::Thorough => "thorough",
        }
    }
    pub fn thorough(self) -> bool {
        self == Tier::Thorough
    }
}

/// Enumerations are exhaustive within a scenario as long as the trace is of ordinary length.
/// A scenario whose trace is enormous (a megabyte stored in 7-byte blocks has hundreds of
/// thousands of operations) keeps a seeded sample of `cap` plans instead, in order; returns
/// true if it had to.
pub fn cap_plans<T>(plans: &mut Vec<T>, cap: usize, seed: u64) -> bool {
    if plans.len() <= cap {
        return false;
    }
    let n = plans.len();
    let mut r = crate::rng::Rng::new(seed ^ 0xCA9);
    let mut keep: std::collections::BTreeSet<usize> = std::collections::BTreeSet::new();
    // always the first and last few (set-up and closing operations), the rest sampled
    for i in 0..(cap / 4).min(100).min(n) {
        keep.insert(i);
        keep.insert(n - 1 - i);
    }
    while keep.len() < cap {
        keep.insert(r.usize(n));
    }
    let mut i = 0;
    plans.retain(|_| {
        let k = keep.contains(&i);
        i += 1;
        k
    });
    true
}

/// How many plans an enumeration may hold when one execution costs about `unit_ops`
/// storage operations: the whole scenario stays within some tens of millions of operations.
pub fn plan_cap(unit_ops: usize, max: usize) -> usize {
    (20_000_000 / unit_ops.max(1)).clamp(40, max)
}

pub struct CheckDef {
    pub info: CheckInfo,
    /// number of seeded runs per tier
    pub runs: fn(Tier) -> u64,
    /// one seeded run: generate scenario(s) and execute them
    pub run: fn(u64, Tier, &mut Acc) -> Vec<Found>,
    /// execute one explicit scenario (replay and minimisation)
    pub execute: fn(&Scenario, &mut Acc) -> Result<Vec<Violation>, String>,
    /// probes that a thorough run is expected to hit at least once
    pub expected_probes: &'static [&'static str],
}

impl CheckDef {
    /// How often an explicit scenario is re-executed before "does not reproduce" is
    /// concluded. One for every check except C17, whose subject is nondeterminism of the
    /// program itself: a hash map seeded by std's RandomState cannot be seeded from outside,
    /// so a violation caused by one shows up only in some executions.
    pub fn replay_attempts(&self) -> u32 {
        if self.info.id == "C17" { 12 } else { 1 }
    }
}

pub fn all() -> Vec<CheckDef> {
    vec![c01::def(), c02::def(), c03::def(), c04::def(), c05::def(), c06::def(), c07::def(), c08::def(), c09::def(), c10::def(), c11::def(), c12::def(), c13::def(), c14::def(), c15::def(), c16::def(), c17::def(), c18::def()]
}

pub fn find(id: &str) -> Option<CheckDef> {
    all().into_iter().find(|c| c.info.id.eq_ignore_ascii_case(id))
}

/// Helper: run `execute` on a scenario and wrap every violation with the scenario itself.
pub fn founds(sc: &Scenario, vs: Vec<Violation>) -> Vec<Found> {
    let v: Value = sc.to_value();
    vs.into_iter()
        .map(|violation| Found {
            violation,
            scenario: v.clone(),
        })
        .collect()
}

pub const REAL_COMPONENTS: &[&str] = &[
    "conserve::backup (walk, merge, combine, blockdir, index writer, band)",
    "conserve::restore",
    "conserve::Archive::{open, create, delete_bands, validate, iter_entries, list_band_ids}",
    "conserve::index::stitch, conserve::gc_lock, conserve::excludes, conserve::apath",
    "conserve::diff",
    "conserve::transport::Transport (front), transport/local.rs (LocalDisk backend runs only)",
    "tokio current-thread runtime, std::fs on tmpfs for source tree and restore target",
];

pub const STUB_COMPONENTS: &[&str] = &[
    "storage backend: in-memory MemStore behind the verif_hooks Backend seam",
    "process boundary: one OS thread + one tokio runtime per simulated invocation",
    "scheduler between invocations: seeded / enumerated gate in the interceptor",
    "crash: cancellation of the call future with a dead interceptor (SIGKILL equivalent)",
    "the user: seeded generator of trees, edits, options and requests",
];
