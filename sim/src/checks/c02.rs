//! C02 — every completed version keeps restoring to its own snapshot, across histories.
//! C13 rides on the same engine (`run_history` with `Mode::Conformance`).

use std::collections::BTreeMap;

use crate::conform::{ConformOpts, check_conformance};
use crate::report::{Acc, CheckInfo, Found, Violation};
use crate::rng::{self, Rng};
use crate::scenario::{
    HistoryCfg, Scenario, Step, StepResult, exec_step, expect_restore_equals, gen_history, outcome_disc, outcome_text,
};
use crate::sim::{Fault, Outcome};
use crate::world::{RestoreSpec, VState, World};

use super::c01::{probes_from_stats, probes_from_world};
use super::{CheckDef, Tier, founds};

pub fn def() -> CheckDef {
    CheckDef {
        info: CheckInfo {
            id: "C02",
            level: "exploration",
            rule: "one seeded run = one history of 3-8 (thorough: up to 20) steps over {edit burst, backup(options), backup killed before storage operation k (every other seed: or after creating a file and before writing its content), delete(subset, dry-run or real, break-lock), gc}; after every archive-changing step every version the model holds as complete is restored and compared with the snapshot taken when it was made, and 'latest' must be the newest of them. Non-trivial: at least two complete versions with different snapshots coexisted; distinct = distinct (sequence of store state hashes).",
            assumptions: &[
                "content edits always come with a new mtime or a new size (the property's precondition)",
                "an interrupted version is one whose band directory exists without a tail; nothing is claimed about restoring it here",
                "deletes refused by Conserve leave the model unchanged; the model follows the store for which band directories exist",
            ],
            real: super::REAL_COMPONENTS,
            stub: super::STUB_COMPONENTS,
        },
        runs: |t| if t.thorough() { 40_000 } else { 5_000 },
        run,
        execute: |sc, acc| run_history(sc, acc, Mode::Restores),
        expected_probes: &[
            "interrupted_backup",
            "resumed_after_interrupt",
            "delete_real",
            "delete_refused_incomplete_newest",
            "basis_entry_reused",
            "dedup_hit",
            "versions_coexisting_ge3",
            "headless_newest_band",
            "latest_checked_with_incomplete_newest",
        ],
    }
}

#[derive(Clone, Copy, PartialEq, Eq)]
pub enum Mode {
    Restores,
    Conformance,
}

pub fn generate(seed: u64, tier: Tier, check: &str) -> Scenario {
    let mut r = Rng::new(seed);
    let hc = HistoryCfg {
        min_steps: 3,
        max_steps: if tier.thorough() { 20 } else { 8 },
        interrupts: true,
        crash_empty: check == "C13" || seed % 2 == 0,
        deletes: true,
        thorough: tier.thorough(),
        small_blocks: r.chance(1, 3),
    };
    let mut sc = gen_history(&mut r, check, seed, &hc);
    // one run in eight drives the REAL transport/local.rs (tmpfs) behind the interceptor,
    // including the zero-length files a killed local write leaves
    sc.env.local_backend = r.chance(1, 8);
    if check == "C13" {
        // "after any sequence of operations": some backups also meet storage errors
        for s in sc.steps.iter_mut() {
            if let Step::Backup { plan, .. } = s {
                if plan.is_faultless() && r.chance(1, 5) {
                    plan.fail_each = Some((r.next_u64(), *r.pick(&[10u32, 30])));
                }
            }
        }
    }
    sc
}

fn run(seed: u64, tier: Tier, acc: &mut Acc) -> Vec<Found> {
    let sc = generate(seed, tier, "C02");
    match run_history(&sc, acc, Mode::Restores) {
        Ok(vs) => {
            acc.sample(sc.compact());
            founds(&sc, vs)
        }
        Err(e) => {
            acc.harness_errors.push(format!("C02 seed {seed}: {e}"));
            vec![]
        }
    }
}

fn push_new(out: &mut Vec<Violation>, vs: Vec<Violation>) {
    for v in vs {
        if !out.iter().any(|o| o.signature() == v.signature()) {
            out.push(v);
        }
    }
}

pub fn run_history(sc: &Scenario, acc: &mut Acc, mode: Mode) -> Result<Vec<Violation>, String> {
    let prop = if mode == Mode::Restores { "C02" } else { "C13" };
    let mut out: Vec<Violation> = Vec::new();
    let mut w = World::new(sc.env.clone(), sc.root_meta);
    acc.runs += 1;
    *acc.backends.entry(if sc.env.local_backend { "local_disk" } else { "mem" }.into()).or_default() += 1;
    if sc.env.local_backend {
        acc.hit("history_on_local_disk");
    }
    let mut state_seq: Vec<u64> = Vec::new();
    let mut distinct_complete_snaps = false;
    let allow_empty = sc.steps.iter().any(|s| match s {
        Step::Backup { plan, .. } | Step::Delete { plan, .. } => plan.at.values().any(|f| *f == Fault::CrashEmpty),
        _ => false,
    });
    let mut had_interrupt = false;
    for (si, step) in sc.steps.iter().enumerate() {
        let lock_before = w.gc_lock_present();
        let res = exec_step(&mut w, step, acc, false)?;
        let mut archive_changed = true;
        match (&res, step) {
            (StepResult::Edited(_), _) => archive_changed = false,
            (StepResult::Backup(b), Step::Backup { opts, plan }) => {
                probes_from_world(&w, acc, opts);
                if let Outcome::Done(Ok(s)) = &b.outcome {
                    probes_from_stats(s, acc);
                    if had_interrupt {
                        acc.hit("resumed_after_interrupt");
                    }
                }
                if matches!(b.outcome, Outcome::Crashed) {
                    acc.hit("interrupted_backup");
                    had_interrupt = true;
                }
                if plan.is_faultless() && mode == Mode::Restores {
                    match &b.outcome {
                        Outcome::Done(Ok(_)) => {}
                        Outcome::Done(Err(e)) if lock_before && e.variant == "GarbageCollectionLockHeld" => {
                            acc.hit("backup_refused_lock_held");
                        }
                        other => out.push(Violation::new(
                            prop,
                            "backup_completes",
                            outcome_disc(other),
                            format!("step {si}: fault-free backup: {}", outcome_text(other)),
                        )),
                    }
                }
            }
            (StepResult::Delete(d), Step::Delete { dry_run, .. }) => {
                match &d.outcome {
                    Outcome::Done(Ok(_)) => acc.hit(if *dry_run { "delete_dry_run" } else { "delete_real" }),
                    Outcome::Done(Err(e)) if e.variant == "DeleteWithIncompleteBackup" => acc.hit("delete_refused_incomplete_newest"),
                    Outcome::Done(Err(e)) if e.variant == "GarbageCollectionLockHeld" => acc.hit("delete_refused_lock_held"),
                    Outcome::Done(Err(_)) => acc.hit("delete_failed_other"),
                    Outcome::Panicked(p) => out.push(Violation::new(
                        prop,
                        "delete_no_panic",
                        crate::report::panic_disc(p),
                        format!("step {si}: delete panicked at {}:{}: {}", p.file, p.line, p.msg),
                    )),
                    _ => {}
                }
            }
            _ => {}
        }
        if !archive_changed {
            continue;
        }
        acc.evaluations += 1;
        let st = w.store();
        let h = st.state_hash();
        acc.states.insert(h);
        state_seq.push(h);
        let view = crate::format::decode(&st);
        if let Some((_, newest)) = view.bands.iter().next_back() {
            if !newest.has_head() {
                acc.hit("headless_newest_band");
            }
        }
        match mode {
            Mode::Conformance => {
                let mut snaps = BTreeMap::new();
                for (id, v) in &w.versions {
                    if v.state != VState::Deleted {
                        snaps.insert(*id, v.snap.clone());
                    }
                }
                push_new(
                    &mut out,
                    check_conformance(
                        prop,
                        &view,
                        &ConformOpts {
                            allow_empty_leftovers: allow_empty,
                            snaps,
                        },
                    ),
                );
            }
            Mode::Restores => {
                let complete = w.complete_versions();
                if complete.len() >= 3 {
                    acc.hit("versions_coexisting_ge3");
                }
                if complete.len() >= 2 {
                    let a = &w.versions[&complete[0]].snap;
                    if complete[1..].iter().any(|b| w.versions[b].snap != *a) {
                        distinct_complete_snaps = true;
                    }
                }
                for b in &complete {
                    let v = w.versions[b].clone();
                    let vs = expect_restore_equals(&mut w, acc, prop, Some(*b), &v.snap, v.opts.owner, &format!("after step {si}: restore of b{b:04}"));
                    push_new(&mut out, vs);
                }
                // "latest complete" must select the newest of them
                let newest_is_incomplete = w.versions.iter().next_back().map(|(_, v)| v.state == VState::Interrupted).unwrap_or(false);
                if newest_is_incomplete {
                    acc.hit("latest_checked_with_incomplete_newest");
                }
                match complete.last() {
                    Some(b) => {
                        let v = w.versions[b].clone();
                        let vs = expect_restore_equals(&mut w, acc, prop, None, &v.snap, v.opts.owner, &format!("after step {si}: restore of latest (expected b{b:04})"));
                        for mut x in vs {
                            x.oracle = format!("latest_{}", x.oracle);
                            if !out.iter().any(|o| o.signature() == x.signature()) {
                                out.push(x);
                            }
                        }
                    }
                    None => {
                        let r = w.restore(&RestoreSpec::default());
                        acc.calls += 1;
                        match &r.outcome {
                            // The property only says what 'latest' selects when complete
                            // versions exist; with none, any refusal is acceptable.
                            Outcome::Done(Err(_)) => {}
                            other => push_new(
                                &mut out,
                                vec![Violation::new(
                                    prop,
                                    "latest_with_no_complete_version",
                                    outcome_disc(other),
                                    format!("after step {si}: no complete version exists, restore of latest gave: {}", outcome_text(other)),
                                )],
                            ),
                        }
                    }
                }
            }
        }
    }
    let nontrivial = match mode {
        Mode::Restores => distinct_complete_snaps,
        Mode::Conformance => state_seq.len() >= 2,
    };
    if nontrivial {
        acc.nontrivial.insert(rng::mix(&state_seq));
    }
    Ok(out)
}
