//! C17 — the archive is a pure function of the source and the operation history.
//! One history is replayed into fresh stores under three controlled flavours of the
//! environment (listing order, task delays); the stores must be byte-identical apart from
//! the two wall-clock fields, and the mutating operation sequences must be equal.

use std::collections::BTreeSet;

use crate::report::{Acc, CheckInfo, Found, Violation};
use crate::rng::{self, Rng};
use crate::scenario::{HistoryCfg, Scenario, Step, exec_step, gen_history};
use crate::store::{ListOrder, MemStore, Node, mask_times};
use crate::world::World;

use super::{CheckDef, Tier, founds};

pub fn def() -> CheckDef {
    CheckDef {
        info: CheckInfo {
            id: "C17",
            level: "exploration",
            rule: "one seeded run = one history (as C02: edits, backups with any options, backups killed before operation k, deletes, gc) executed three times into fresh simulated stores: flavour A sorted storage listings and no delays; flavour B shuffled listings plus seeded delays that reorder the completion of sibling tasks; flavour C reversed listings and another delay seed; flavour D sorted, no delays, but every simulated process exits the moment its call returns, so tasks it detached (the GC-lock cleanup spawned from Drop) never run; flavour E as A with the simulated wall clock 70 years ahead (clock skew between the two replays); flavour F as A on a real multi-thread tokio runtime with 4 workers (files only, not the order of operations). Oracle: the stores have the same path set and byte-identical files (BANDHEAD/BANDTAIL compared as JSON without start_time/end_time) and the three operation logs have the same sequence of mutating operations (verb, path, content hash); for flavour D the first step at which lock presence or outcome diverges from flavour A is reported. Non-trivial: the history made at least two archive-changing steps; distinct = distinct final store hash.",
            assumptions: &[
                "flavours A-E run on current-thread runtimes whose task order the simulator decides (delay seam); flavour F is a real 4-worker runtime whose scheduling is the operating system's: a difference it shows is re-executed on 16 threads at once before it is reported, and is reproducible only with high probability",
                "each flavour materialises the same explicit edits in its own scratch directory",
            ],
            real: super::REAL_COMPONENTS,
            stub: super::STUB_COMPONENTS,
        },
        runs: |t| if t.thorough() { 100_000 } else { 5_000 },
        run,
        execute,
        expected_probes: &["ops_delayed", "list_shuffled", "history_with_interrupt", "history_with_delete"],
    }
}

fn run(seed: u64, tier: Tier, acc: &mut Acc) -> Vec<Found> {
    let mut r = Rng::new(seed);
    let hc = HistoryCfg {
        min_steps: 3,
        max_steps: if tier.thorough() { 14 } else { 8 },
        interrupts: true,
        crash_empty: true,
        deletes: true,
        thorough: tier.thorough(),
        small_blocks: r.chance(1, 2),
    };
    let sc = gen_history(&mut r, "C17", seed, &hc);
    match execute(&sc, acc) {
        Ok(vs) => {
            acc.sample(sc.compact());
            founds(&sc, vs)
        }
        Err(e) => {
            acc.harness_errors.push(format!("C17 seed {seed}: {e}"));
            vec![]
        }
    }
}

fn masked(m: &MemStore) -> Vec<(String, Vec<u8>)> {
    m.files()
        .map(|(p, b)| (p.clone(), if p.ends_with("BANDHEAD") || p.ends_with("BANDTAIL") { mask_times(b) } else { b.to_vec() }))
        .collect()
}

type Flavoured = (Vec<(String, Vec<u8>)>, Vec<(String, String, u64)>, Vec<String>);

fn execute(sc: &Scenario, acc: &mut Acc) -> Result<Vec<Violation>, String> {
    let prop = "C17";
    let mut out: Vec<Violation> = Vec::new();
    acc.runs += 1;
    acc.evaluations += 1;
    *acc.backends.entry("mem".into()).or_default() += 1;
    // (listing order, delays, let spawned cleanup tasks run before the simulated process exits)
    let flavours = [
        (ListOrder::Sorted, None, true, crate::sim::SIM_EPOCH),
        (ListOrder::Shuffled(sc.seed ^ 0xB), Some((sc.seed ^ 0xB1, 300u32)), true, crate::sim::SIM_EPOCH),
        (ListOrder::Reversed, Some((sc.seed ^ 0xC1, 150u32)), true, crate::sim::SIM_EPOCH),
        // the process exits as soon as the call returns: detached tasks never get to run
        (ListOrder::Sorted, None, false, crate::sim::SIM_EPOCH),
        // the replay happens at another time: the simulated wall clock (all Conserve stores
        // of it are the start and end times, which the comparison leaves out) is decades
        // ahead, later than any timestamp the real file system gives the source files
        (ListOrder::Sorted, None, true, 4_000_000_000),
        // a real multi-thread runtime with four workers: which worker runs a spawned task,
        // and when, is not the simulator's decision here (see the assumptions)
        (ListOrder::Sorted, None, true, crate::sim::SIM_EPOCH),
    ];
    let mut results: Vec<Flavoured> = Vec::new();
    let mut trails: Vec<Vec<(bool, String)>> = Vec::new();
    let mut changing_steps = 0;
    for (order, delay, drain, clock_base) in flavours.iter() {
        let mut env = sc.env.clone();
        env.list_order = *order;
        env.delay = *delay;
        env.drain = *drain;
        let mut trail: Vec<(bool, String)> = Vec::new();
        let mut w = World::new(env, sc.root_meta);
        w.set_clock_base(*clock_base);
        if results.len() == 5 {
            w.set_runtime_workers(4);
            acc.hit("multi_thread_runtime_flavour");
        }
        let mut a2 = Acc::default();
        changing_steps = 0;
        for step in &sc.steps {
            let res = exec_step(&mut w, step, &mut a2, false)?;
            let outcome = match &res {
                crate::scenario::StepResult::Delete(d) => format!("delete:{}", crate::scenario::outcome_disc(&d.outcome)),
                crate::scenario::StepResult::Backup(b) => format!("backup:{}", crate::scenario::outcome_disc(&b.outcome)),
                _ => "other".to_string(),
            };
            trail.push((w.gc_lock_present(), outcome));
            match step {
                Step::Backup { plan, .. } => {
                    changing_steps += 1;
                    if !plan.is_faultless() {
                        acc.hit("history_with_interrupt");
                    }
                }
                Step::Delete { .. } => {
                    changing_steps += 1;
                    acc.hit("history_with_delete");
                }
                _ => {}
            }
        }
        acc.calls += a2.calls;
        if results.len() == 5 {
            // flavour F: how many operations are in flight when a kill lands is the operating
            // system's doing; counted apart so that the run's totals stay a function of the seed
            *acc.reach.entry("storage_ops_on_multi_thread_runtime".into()).or_default() += a2.ops;
        } else {
            acc.ops += a2.ops;
        }
        if a2.reach.get("ops_delayed").copied().unwrap_or(0) > 0 {
            acc.hit("ops_delayed");
        }
        if *order != ListOrder::Sorted {
            acc.hit("list_shuffled");
        }
        for (k, v) in a2.faults {
            *acc.faults.entry(k).or_default() += v;
        }
        let st = w.store();
        let muts: Vec<(String, String, u64)> = w
            .core
            .log_since(0)
            .iter()
            .filter(|r| r.mutated())
            .map(|r| (r.verb.to_string(), r.path.clone(), if r.path.ends_with("BANDHEAD") || r.path.ends_with("BANDTAIL") { 0 } else { r.content_hash }))
            .collect();
        let dirs: Vec<String> = st.nodes.iter().filter(|(_, n)| matches!(n, Node::Dir)).map(|(k, _)| k.clone()).collect();
        acc.states.insert(st.state_hash());
        results.push((masked(&st), muts, dirs));
        trails.push(trail);
    }
    // flavour D (exit before detached cleanup): only the FIRST divergence is meaningful, later
    // steps legitimately differ once a lock was left behind
    if let Some(i) = (0..trails[0].len()).find(|i| trails[0][*i] != trails[3][*i]) {
        let (lock_a, out_a) = &trails[0][i];
        let (lock_d, out_d) = &trails[3][i];
        acc.hit("exit_before_cleanup_diverged");
        let disc = if *lock_d && !*lock_a {
            if out_d.starts_with("delete:ok") {
                "gc_lock_left_after_successful_delete".to_string()
            } else if out_d.starts_with("delete:") {
                "gc_lock_left_after_failed_delete".to_string()
            } else {
                format!("gc_lock_left_after_{}", out_d.split(':').next().unwrap_or("step"))
            }
        } else {
            format!("outcome_differs:{}", out_d.split(':').next().unwrap_or("step"))
        };
        out.push(Violation::new(
            prop,
            "stores_identical_across_flavours",
            format!("exit_before_cleanup:{disc}"),
            format!("step {i}: with detached cleanup allowed to run: lock_present={lock_a} {out_a}; when the process exits first: lock_present={lock_d} {out_d}"),
        ));
    }
    if changing_steps >= 2 {
        acc.nontrivial.insert(rng::mix(&results[0].0.iter().map(|(p, b)| rng::mix(&[rng::hash_str(p), rng::hash_bytes(b)])).collect::<Vec<_>>()));
    }
    for (i, name) in [(1usize, "shuffled+delays"), (2usize, "reversed+delays"), (4usize, "another wall-clock time"), (5usize, "multi-thread runtime (4 workers)")] {
        let (a, b) = (&results[0], &results[i]);
        if a.0 != b.0 || a.2 != b.2 {
            let pa: BTreeSet<&String> = a.0.iter().map(|(p, _)| p).collect();
            let pb: BTreeSet<&String> = b.0.iter().map(|(p, _)| p).collect();
            let disc = if pa != pb || a.2 != b.2 { "path_set" } else { "file_bytes" };
            let disc = if i == 4 { format!("clock:{disc}") } else if i == 5 { format!("multi_thread:{disc}") } else { disc.to_string() };
            let first = a.0.iter().zip(b.0.iter()).find(|(x, y)| x != y).map(|(x, y)| format!("{} vs {}", x.0, y.0)).unwrap_or_default();
            out.push(Violation::new(prop, "stores_identical_across_flavours", disc, format!("sorted/no-delay vs {name}: first difference at {first}")));
        }
        // the order of operations is only demanded of the flavours the simulator schedules
        if a.1 != b.1 && i != 5 {
            let first = a.1.iter().zip(b.1.iter()).position(|(x, y)| x != y).unwrap_or(a.1.len().min(b.1.len()));
            out.push(Violation::new(
                prop,
                "mutating_operation_sequence_identical",
                if i == 4 { "clock:sequence" } else { "sequence" },
                format!("sorted/no-delay vs {name}: mutating operation #{first} differs: {:?} vs {:?}", a.1.get(first), b.1.get(first)),
            ));
        }
    }
    Ok(out)
}
