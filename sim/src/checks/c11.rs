//! C11 — one total order shared by the source walk, listings and indexes.
//! The stream half (walk order under real readdir order, hunk order, listing order under
//! shuffled storage listings) is a simulation invariant; the comparator half is checked only
//! over the path populations of the simulated worlds (sampling, see DESIGN.md 6 C11).

use std::cmp::Ordering;
use std::collections::BTreeSet;

use conserve::Apath;

use crate::format::{self, first_order_violation, ref_cmp, ref_valid};
use crate::genr::{Gen, GenCfg, NameStyle, draw_opts};
use crate::report::{Acc, CheckInfo, Found, Violation};
use crate::rng::{self, Rng};
use crate::scenario::{Scenario, Step, StepResult, draw_env, exec_step, outcome_disc, outcome_text};
use crate::sim::{FaultPlan, Outcome};
use crate::tree::TreeModel;
use crate::world::World;

use super::{CheckDef, Tier, founds};

pub fn def() -> CheckDef {
    CheckDef {
        info: CheckInfo {
            id: "C11",
            level: "exploration",
            rule: "one seeded run = one generated tree with an ordering-exercising name alphabet (bytes below and above '/', leading dots, extension siblings, multi-byte UTF-8), materialised on tmpfs, walked by Conserve's own SourceTree iterator (real readdir order), backed up with small hunks through the simulated store (shuffled listings, delays) and listed. Oracles: the walk, every decoded hunk sequence and every listing are strictly increasing under the reference order and hold exactly the tree's paths; over the world's path population (all pairs and triples, at most 40 paths) Apath::cmp agrees with the reference order and is antisymmetric and transitive; Apath::is_valid / FromStr agree with the rule on drawn request strings (empty, '.', '..' components, missing leading '/', NUL). Non-trivial: the tree has at least one directory with both a file and a subdirectory; distinct = distinct path set.",
            assumptions: &[
                "the exhaustive depth<=4 enumeration of the comparator named in the quantifier is NOT built: a bare enumerator of a pure function is a different technique; the comparator is sampled over simulated worlds only",
                "names are valid UTF-8",
            ],
            real: super::REAL_COMPONENTS,
            stub: super::STUB_COMPONENTS,
        },
        runs: |t| if t.thorough() { 300_000 } else { 15_000 },
        run,
        execute,
        expected_probes: &["name_below_slash", "name_above_slash", "multibyte_name", "extension_siblings", "triples_checked", "invalid_strings_checked", "multi_hunk_band", "more_than_10000_hunks_listed"],
    }
}

fn generate(seed: u64, tier: Tier) -> Scenario {
    let mut r = Rng::new(seed);
    let mut opts = draw_opts(&mut r);
    opts.max_entries_per_hunk = *r.pick(&[1, 2, 3, 5]);
    let env = draw_env(&mut r);
    let mut cfg = GenCfg::draw(&mut r, &opts, tier.thorough());
    cfg.names = *r.pick(&[NameStyle::Ordering, NameStyle::Unicode, NameStyle::Mixed]);
    cfg.max_depth = 2 + r.usize(3);
    cfg.max_burst = cfg.max_burst.max(8).min(39);
    let mut g = Gen::new(r.derive("gen"));
    let root_meta = g.root_meta(&cfg);
    let model = TreeModel::new(root_meta);
    let mut burst = g.burst(&model, &cfg, 3 + r.usize(cfg.max_burst));
    if r.chance(1, 2) {
        let mut m2 = model.clone();
        for e in &burst {
            m2.apply(e);
        }
        for e in g.extension_sibling_scaffold(&m2, &cfg) {
            if m2.apply(&e) {
                burst.push(e);
            }
        }
    }
    Scenario {
        check: "C11".into(),
        seed,
        env,
        root_meta,
        steps: vec![Step::Edit(burst), Step::Backup { opts, plan: FaultPlan::none() }],
        params: serde_json::Value::Null,
    }
}

fn run(seed: u64, tier: Tier, acc: &mut Acc) -> Vec<Found> {
    // one seed in 1 500: an index of more than 10 000 hunks (two index subdirectories), listed
    let sc = if seed % 1500 == 11 {
        acc.hit("more_than_10000_hunks_listed");
        crate::scenario::many_hunks("C11", seed)
    } else {
        generate(seed, tier)
    };
    match execute(&sc, acc) {
        Ok(vs) => {
            acc.sample(sc.compact());
            founds(&sc, vs)
        }
        Err(e) => {
            acc.harness_errors.push(format!("C11 seed {seed}: {e}"));
            vec![]
        }
    }
}

fn conserve_cmp(a: &str, b: &str) -> Ordering {
    Apath::from(a).cmp(&Apath::from(b))
}

fn execute(sc: &Scenario, acc: &mut Acc) -> Result<Vec<Violation>, String> {
    let prop = "C11";
    let mut out: Vec<Violation> = Vec::new();
    let mut w = World::new(sc.env.clone(), sc.root_meta);
    acc.runs += 1;
    acc.evaluations += 1;
    *acc.backends.entry("mem".into()).or_default() += 1;
    for step in &sc.steps {
        let res = exec_step(&mut w, step, acc, false)?;
        match (&res, step) {
            (StepResult::Edited(_), Step::Edit(_)) => {
                // the source walk under the real readdir order
                let walked = w.source_walk(&[])?;
                let expect: BTreeSet<&String> = w.snap.keys().collect();
                let got: BTreeSet<&String> = walked.iter().collect();
                if expect != got {
                    out.push(Violation::new(prop, "walk_yields_the_tree", "path_set", format!("walk {walked:?} vs tree {:?}", w.snap.keys().collect::<Vec<_>>())));
                }
                if let Some((a, b)) = first_order_violation(walked.iter().map(|s| s.as_str())) {
                    out.push(Violation::new(prop, "walk_strictly_increasing", if a == b { "duplicate" } else { "out_of_order" }, format!("walk yields {a:?} before {b:?}")));
                }
            }
            (StepResult::Backup(b), _) => {
                if !matches!(b.outcome, Outcome::Done(Ok(_))) {
                    out.push(Violation::new(prop, "backup_completes", outcome_disc(&b.outcome), outcome_text(&b.outcome)));
                    continue;
                }
                let view = w.view();
                for (id, bv) in &view.bands {
                    if bv.hunks.len() > 1 {
                        acc.hit("multi_hunk_band");
                    }
                    let paths: Vec<String> = bv.own_entries().iter().map(|e| e.apath.clone()).collect();
                    if let Some((a, bb)) = first_order_violation(paths.iter().map(|s| s.as_str())) {
                        out.push(Violation::new(prop, "index_strictly_increasing", if a == bb { "duplicate" } else { "out_of_order" }, format!("b{id:04}: {a:?} is followed by {bb:?}")));
                    }
                    let lr = w.list(Some(*id), "/", &[]);
                    acc.calls += 1;
                    if let Outcome::Done(Ok(es)) = &lr.outcome {
                        let lp: Vec<String> = es.iter().map(|e| e.apath.to_string()).collect();
                        if let Some((a, bb)) = first_order_violation(lp.iter().map(|s| s.as_str())) {
                            out.push(Violation::new(prop, "listing_strictly_increasing", if a == bb { "duplicate" } else { "out_of_order" }, format!("b{id:04}: {a:?} is followed by {bb:?}")));
                        }
                    }
                }
            }
            _ => {}
        }
    }
    // comparator half over this world's population
    let pop: Vec<&String> = w.snap.keys().take(40).collect();
    for p in &pop {
        let last = p.rsplit('/').next().unwrap_or("");
        if last.bytes().any(|c| c < b'/') {
            acc.hit("name_below_slash");
        }
        if last.bytes().any(|c| c > b'/' && c < 0x80) {
            acc.hit("name_above_slash");
        }
        if !p.is_ascii() {
            acc.hit("multibyte_name");
        }
    }
    if pop.iter().any(|a| pop.iter().any(|b| a != b && b.starts_with(a.as_str()) && !b[a.len()..].starts_with('/') && a.as_str() != "/")) {
        acc.hit("extension_siblings");
    }
    let has_mixed_dir = w.snap.iter().any(|(d, n)| {
        n.kind == 'd'
            && w.snap.iter().any(|(p, c)| c.kind == 'f' && crate::tree::parent_apath(p) == d && p != d)
            && w.snap.iter().any(|(p, c)| c.kind == 'd' && crate::tree::parent_apath(p) == d && p != d)
    });
    if has_mixed_dir {
        acc.nontrivial.insert(rng::mix(&pop.iter().map(|p| rng::hash_str(p)).collect::<Vec<_>>()));
    }
    'pairs: for a in &pop {
        for b in &pop {
            let c = conserve_cmp(a, b);
            if c != ref_cmp(a, b) {
                out.push(Violation::new(prop, "cmp_agrees_with_documented_order", "disagree", format!("Apath::cmp({a:?}, {b:?}) = {c:?}, documented order says {:?}", ref_cmp(a, b))));
                break 'pairs;
            }
            if c != conserve_cmp(b, a).reverse() {
                out.push(Violation::new(prop, "cmp_antisymmetric", "asymmetric", format!("{a:?} vs {b:?}")));
                break 'pairs;
            }
            if (c == Ordering::Equal) != (a == b) {
                out.push(Violation::new(prop, "cmp_equal_iff_same", "equality", format!("{a:?} vs {b:?}")));
                break 'pairs;
            }
        }
    }
    let n = pop.len().min(24);
    'triples: for a in &pop[..n] {
        for b in &pop[..n] {
            if conserve_cmp(a, b) == Ordering::Greater {
                continue;
            }
            for c in &pop[..n] {
                if conserve_cmp(b, c) != Ordering::Greater && conserve_cmp(a, c) == Ordering::Greater {
                    out.push(Violation::new(prop, "cmp_transitive", "intransitive", format!("{a:?} <= {b:?} <= {c:?} but {a:?} > {c:?}")));
                    break 'triples;
                }
            }
        }
    }
    acc.hit("triples_checked");
    // validity of request strings
    let mut r = Rng::new(sc.seed ^ 0x11);
    let comps = ["", ".", "..", "a", "a.b", " ", "é", "a\0b", "...", "-", "~"];
    for _ in 0..40 {
        let depth = 1 + r.usize(4);
        let mut s = if r.chance(5, 6) { String::from("/") } else { String::new() };
        for i in 0..depth {
            if i > 0 {
                s.push('/');
            }
            let c: &str = *r.pick(&comps[..]);
            s.push_str(c);
        }
        if r.chance(1, 10) {
            s.push('/');
        }
        let got = Apath::is_valid(&s);
        let parsed = s.parse::<Apath>().is_ok();
        if got != ref_valid(&s) || parsed != got {
            out.push(Violation::new(prop, "validity_matches_rule", if ref_valid(&s) { "rejects_valid" } else { "accepts_invalid" }, format!("{s:?}: is_valid={got} from_str={parsed} rule={}", ref_valid(&s))));
            break;
        }
    }
    acc.hit("invalid_strings_checked");
    let _ = format::ref_valid("/");
    let mut seen = BTreeSet::new();
    out.retain(|v| seen.insert(v.signature()));
    Ok(out)
}
