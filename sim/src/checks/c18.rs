//! C18 — diff and change reports agree with the real differences.

use std::collections::{BTreeMap, BTreeSet};

use crate::format::ref_cmp;
use crate::genr::{Gen, GenCfg, draw_opts};
use crate::report::{Acc, CheckInfo, Found, Violation};
use crate::rng::{self, Rng};
use crate::scenario::{Scenario, Step, StepResult, draw_env, exec_step, outcome_disc, outcome_text};
use crate::sim::{FaultPlan, Outcome};
use crate::tree::{SNode, Snap, TreeModel};
use crate::world::World;

use super::{CheckDef, Tier, founds};

pub fn def() -> CheckDef {
    CheckDef {
        info: CheckInfo {
            id: "C18",
            level: "exploration",
            rule: "one seeded run = tree, backup (owners recorded), a check that diff against the untouched tree reports nothing, then a generated mutation set (content with new mtime or size, mtime-only, chmod, chown, kind swaps, add/remove of files, directories, symlinks, retargeted links, renames), then diff(version, tree) with and without include_unchanged compared path by path (in reference order) with a model diff of the two snapshots, then a backup with a change callback whose reports for files and deletions are compared with the same model. No fault or interleaving is involved beyond shuffled storage listings. Non-trivial: the mutation set produced at least two different change classes; distinct = (tree hash, mutation hash).",
            assumptions: &["directory mtimes are ignored (as the property says); the callback is silent for directories and symlinks today and that is not demanded"],
            real: super::REAL_COMPONENTS,
            stub: super::STUB_COMPONENTS,
        },
        runs: |t| if t.thorough() { 200_000 } else { 8_000 },
        run,
        execute,
        expected_probes: &["change_added", "change_deleted", "change_changed", "change_unchanged", "kind_swap", "mtime_only_change", "mode_only_change", "owner_only_change", "target_change"],
    }
}

fn generate(seed: u64, tier: Tier) -> Scenario {
    let mut r = Rng::new(seed);
    let mut opts = draw_opts(&mut r);
    opts.owner = true;
    let env = draw_env(&mut r);
    let mut cfg = GenCfg::draw(&mut r, &opts, false);
    cfg.owners = true;
    cfg.unnamed_owners = true;
    cfg.symlinks = true;
    let mut g = Gen::new(r.derive("gen"));
    let root_meta = g.root_meta(&cfg);
    let mut model = TreeModel::new(root_meta);
    let n = if tier.thorough() { 4 + r.usize(20) } else { 4 + r.usize(10) };
    let b1 = g.burst(&model, &cfg, n);
    for e in &b1 {
        model.apply(e);
    }
    let b2 = g.burst(&model, &cfg, 1 + r.usize(8));
    Scenario {
        check: "C18".into(),
        seed,
        env,
        root_meta,
        steps: vec![Step::Edit(b1), Step::Backup { opts: opts.clone(), plan: FaultPlan::none() }, Step::Edit(b2), Step::Backup { opts, plan: FaultPlan::none() }],
        params: serde_json::Value::Null,
    }
}

fn run(seed: u64, tier: Tier, acc: &mut Acc) -> Vec<Found> {
    let sc = generate(seed, tier);
    match execute(&sc, acc) {
        Ok(vs) => {
            acc.sample(sc.compact());
            founds(&sc, vs)
        }
        Err(e) => {
            acc.harness_errors.push(format!("C18 seed {seed}: {e}"));
            vec![]
        }
    }
}

/// Conserve records owners by NAME: two numeric ids that both have no name on this machine
/// are the same (absent) owner to it, and that is not a difference it can report.
fn id_names() -> &'static (BTreeMap<u32, String>, BTreeMap<u32, String>) {
    static T: std::sync::OnceLock<(BTreeMap<u32, String>, BTreeMap<u32, String>)> = std::sync::OnceLock::new();
    T.get_or_init(|| {
        let parse = |path: &str| -> BTreeMap<u32, String> {
            let mut m = BTreeMap::new();
            for line in std::fs::read_to_string(path).unwrap_or_default().lines() {
                let f: Vec<&str> = line.split(':').collect();
                if f.len() > 2 {
                    if let Ok(id) = f[2].parse::<u32>() {
                        m.entry(id).or_insert_with(|| f[0].to_string());
                    }
                }
            }
            m
        };
        (parse("/etc/passwd"), parse("/etc/group"))
    })
}

fn changed(a: &SNode, b: &SNode) -> bool {
    let (users, groups) = id_names();
    a.kind != b.kind
        || users.get(&a.uid) != users.get(&b.uid)
        || groups.get(&a.gid) != groups.get(&b.gid)
        || a.mode != b.mode
        || (a.kind == 'f' && (a.data.len() != b.data.len() || a.mtime != b.mtime))
        || (a.kind == 'l' && a.target != b.target)
}

/// (sigil, apath) in reference order
fn model_diff(old: &Snap, new: &Snap) -> Vec<(char, String)> {
    let mut paths: BTreeSet<&String> = old.keys().collect();
    paths.extend(new.keys());
    let mut v: Vec<&String> = paths.into_iter().collect();
    v.sort_by(|a, b| ref_cmp(a, b));
    v.into_iter()
        .map(|p| match (old.get(p), new.get(p)) {
            (Some(_), None) => ('-', p.clone()),
            (None, Some(_)) => ('+', p.clone()),
            (Some(a), Some(b)) => (if changed(a, b) { '*' } else { '.' }, p.clone()),
            (None, None) => unreachable!(),
        })
        .collect()
}

fn execute(sc: &Scenario, acc: &mut Acc) -> Result<Vec<Violation>, String> {
    let prop = "C18";
    let mut out: Vec<Violation> = Vec::new();
    let mut w = World::new(sc.env.clone(), sc.root_meta);
    acc.runs += 1;
    acc.evaluations += 1;
    *acc.backends.entry("mem".into()).or_default() += 1;
    let mut first_band: Option<u32> = None;
    let mut old_snap: Option<std::sync::Arc<Snap>> = None;
    for step in &sc.steps {
        // the second backup is run with the change callback
        let want_changes = first_band.is_some();
        let res = exec_step(&mut w, step, acc, want_changes)?;
        match (&res, step) {
            (StepResult::Backup(b), _) if first_band.is_none() => match (&b.outcome, b.new_band) {
                (Outcome::Done(Ok(_)), Some(nb)) => {
                    first_band = Some(nb);
                    old_snap = Some(w.snap.clone());
                    // the very tree it was made from: no change
                    for inc in [false, true] {
                        let (o, _) = w.diff(nb, inc, &[]);
                        acc.calls += 1;
                        match o {
                            Outcome::Done(Ok(ch)) => {
                                let bad: Vec<&(char, String)> = ch.iter().filter(|(s, _)| *s != '.').collect();
                                if !bad.is_empty() {
                                    out.push(Violation::new(prop, "unchanged_tree_reports_no_change", format!("sigil_{}", bad[0].0), format!("diff of b{nb:04} against its own source reports {:?}", &bad[..bad.len().min(3)])));
                                }
                                if inc && ch.len() != w.snap.len() {
                                    out.push(Violation::new(prop, "include_unchanged_lists_everything", "count", format!("{} entries reported, tree has {}", ch.len(), w.snap.len())));
                                }
                            }
                            other => out.push(Violation::new(prop, "diff_completes", outcome_disc(&other), outcome_text(&other))),
                        }
                    }
                }
                (other, _) => {
                    out.push(Violation::new(prop, "backup_completes", outcome_disc(other), outcome_text(other)));
                    return Ok(out);
                }
            },
            (StepResult::Edited(_), Step::Edit(_)) if first_band.is_some() => {
                let nb = first_band.unwrap();
                let old = old_snap.clone().unwrap();
                let md = model_diff(&old, &w.snap);
                let classes: BTreeSet<char> = md.iter().map(|(s, _)| *s).collect();
                for (s, p) in &md {
                    match s {
                        '+' => acc.hit("change_added"),
                        '-' => acc.hit("change_deleted"),
                        '.' => acc.hit("change_unchanged"),
                        _ => {
                            acc.hit("change_changed");
                            let (a, b) = (&old[p], &w.snap[p]);
                            if a.kind != b.kind {
                                acc.hit("kind_swap");
                            } else if a.kind == 'f' && a.mtime != b.mtime && a.data == b.data && a.mode == b.mode && a.uid == b.uid && a.gid == b.gid {
                                acc.hit("mtime_only_change");
                            } else if a.mode != b.mode && a.mtime == b.mtime && a.uid == b.uid && a.gid == b.gid {
                                acc.hit("mode_only_change");
                            } else if (a.uid != b.uid || a.gid != b.gid) && a.mode == b.mode && a.mtime == b.mtime {
                                acc.hit("owner_only_change");
                            } else if a.kind == 'l' && a.target != b.target {
                                acc.hit("target_change");
                            }
                        }
                    }
                }
                if classes.iter().filter(|c| **c != '.').count() >= 2 {
                    acc.nontrivial.insert(rng::mix(&[w.store().state_hash(), rng::hash_str(&format!("{md:?}"))]));
                }
                for inc in [true, false] {
                    let want: Vec<(char, String)> = md.iter().filter(|(s, _)| inc || *s != '.').cloned().collect();
                    let (o, _) = w.diff(nb, inc, &[]);
                    acc.calls += 1;
                    match o {
                        Outcome::Done(Ok(got)) => {
                            if got != want {
                                let gm: BTreeMap<&String, char> = got.iter().map(|(s, p)| (p, *s)).collect();
                                let wm: BTreeMap<&String, char> = want.iter().map(|(s, p)| (p, *s)).collect();
                                let mut disc = "order".to_string();
                                let mut detail = String::new();
                                for (p, s) in &wm {
                                    match gm.get(p) {
                                        Some(g) if g == s => {}
                                        Some(g) => {
                                            disc = format!("classified_{g}_expected_{s}");
                                            detail = format!("{p:?}: diff says {g}, the trees say {s}");
                                            break;
                                        }
                                        None => {
                                            disc = format!("missing_{s}");
                                            detail = format!("{p:?} ({s}) not reported");
                                            break;
                                        }
                                    }
                                }
                                if detail.is_empty() {
                                    if let Some((p, s)) = gm.iter().find(|(p, _)| !wm.contains_key(*p)) {
                                        disc = format!("spurious_{s}");
                                        detail = format!("{p:?} reported as {s} but nothing changed there");
                                    }
                                }
                                out.push(Violation::new(prop, "diff_equals_model_diff", disc, format!("include_unchanged={inc}: {detail}; got {:?}", &got[..got.len().min(6)])));
                            }
                        }
                        other => out.push(Violation::new(prop, "diff_completes", outcome_disc(&other), outcome_text(&other))),
                    }
                }
            }
            (StepResult::Backup(b), _) => {
                // the change callback of the next backup
                let old = old_snap.clone().unwrap();
                let md = model_diff(&old, &w.snap);
                if !matches!(b.outcome, Outcome::Done(Ok(_))) {
                    out.push(Violation::new(prop, "backup_completes", outcome_disc(&b.outcome), outcome_text(&b.outcome)));
                    continue;
                }
                let cb: BTreeMap<&String, char> = b.changes.iter().map(|(s, p)| (p, *s)).collect();
                for (s, p) in &md {
                    let is_file_now = w.snap.get(p).map(|n| n.kind == 'f').unwrap_or(false);
                    if is_file_now {
                        match cb.get(p) {
                            Some(g) if g == s => {}
                            Some(g) => out.push(Violation::new(prop, "backup_change_report_equals_model", format!("classified_{g}_expected_{s}"), format!("{p:?}: callback says {g}, the trees say {s}"))),
                            None => out.push(Violation::new(prop, "backup_change_report_equals_model", format!("missing_{s}"), format!("{p:?} ({s}) not reported by the backup"))),
                        }
                    } else if *s == '-' {
                        match cb.get(p) {
                            Some('-') => {}
                            other => out.push(Violation::new(prop, "backup_change_report_equals_model", "deletion_not_reported", format!("{p:?} was deleted; callback said {other:?}"))),
                        }
                    }
                }
                for (p, s) in &cb {
                    if *s == '-' && !md.iter().any(|(ms, mp)| *ms == '-' && mp == *p) {
                        out.push(Violation::new(prop, "backup_change_report_equals_model", "spurious_deletion", format!("{p:?} reported deleted but it exists or never existed")));
                    }
                }
            }
            _ => {}
        }
    }
    let mut seen = BTreeSet::new();
    out.retain(|v| seen.insert(v.signature()));
    Ok(out)
}
