//! C05 — deleting versions and collecting garbage never harm what is kept.
//! Histories end in a delete/gc; the real run is then repeated with a crash before EVERY
//! storage operation k and with every read/list/stat operation k failing once.

use std::collections::BTreeSet;

use serde_json::json;

use crate::conform::{dangling_references, referenced_hashes};
use crate::format::{self, BlockView, FileView};
use crate::report::{Acc, CheckInfo, Found, Violation, panic_disc};
use crate::rng::{self, Rng};
use crate::scenario::{HistoryCfg, Scenario, Step, exec_step, expect_restore_equals, gen_history, outcome_disc, outcome_text};
use crate::sim::{EKind, Fault, FaultPlan, Outcome};
use crate::store::mask_times;
use crate::world::{VState, World};

use super::{CheckDef, Tier, founds};

pub fn def() -> CheckDef {
    CheckDef {
        info: CheckInfo {
            id: "C05",
            level: "fault_enumeration",
            rule: "one seeded run = one history (as C02) followed by a delete of a drawn subset of the existing versions (including none = pure gc, and all), dry-run or real. The delete is executed fault-free (oracles: refused exactly when the model says; otherwise exactly the requested versions are gone, every remaining complete version restores, every referenced block is present, no unreferenced block remains; a dry run leaves the store byte-identical) and then, for real deletes, re-run from the same pre-state with a crash before EVERY operation k and with every read/list/stat operation k failing once with each of {other, not-found} (oracle: every remaining complete version still restores exactly). Non-trivial: the delete removes at least one band or block and the fault falls after the lock was taken; distinct = distinct (pre-state hash, band set, k, fault).",
            assumptions: &[
                "which blocks are already gone at a crash point is irrelevant; a leftover GC_LOCK is legal",
                "a delete may refuse with an error when a kept band directory has no readable head (it cannot know what that band references)",
                "remove_dir_all of a band directory is atomic in the storage stub",
            ],
            real: super::REAL_COMPONENTS,
            stub: super::STUB_COMPONENTS,
        },
        runs: |t| if t.thorough() { 4_000 } else { 128 },
        run,
        execute,
        expected_probes: &[
            "delete_real_ok",
            "delete_dry_run_ok",
            "delete_refused_incomplete_newest",
            "delete_refused_lock_held",
            "garbage_blocks_collected",
            "shared_block_kept",
            "crash_between_band_and_block_removal",
            "failed_hunk_read_during_gc",
            "delete_all_versions",
            "pure_gc",
        ],
    }
}

fn generate(seed: u64, tier: Tier) -> Scenario {
    let mut r = Rng::new(seed);
    let hc = HistoryCfg {
        min_steps: 3,
        max_steps: if tier.thorough() { 14 } else { 9 },
        interrupts: true,
        crash_empty: seed % 2 == 0,
        deletes: true,
        thorough: false,
        small_blocks: r.chance(1, 2),
    };
    let mut sc = gen_history(&mut r, "C05", seed, &hc);
    if seed % 3 == 0 {
        crate::scenario::sprinkle_legacy_tails(&mut r, &mut sc);
    }
    // one history in four holds a backup killed while storing a block, which leaves a
    // zero-length block file behind; those are followed more often by a dry run
    let mut leftover = false;
    if seed % 4 == 2 {
        for s in sc.steps.iter_mut() {
            if let Step::Backup { plan, .. } = s {
                if plan.is_faultless() && r.chance(1, 2) {
                    plan.crash_on = Some(("write".into(), "d/".into()));
                    plan.crash_on_skip = r.below(3) as u32;
                    plan.crash_on_empty = true;
                    leftover = true;
                    break;
                }
            }
        }
        if leftover {
            // the content of the killed backup's tree must not be stored again (that would
            // complete the zero-length file): replace the whole tree, then a complete backup,
            // so that the delete is not refused for an open newest band
            let mut model = crate::tree::TreeModel::new(sc.root_meta);
            for s in &sc.steps {
                if let Step::Edit(es) = s {
                    for e in es {
                        model.apply(e);
                    }
                }
            }
            let mut es: Vec<crate::tree::EditOp> = model
                .nodes
                .keys()
                .filter(|k| k.as_str() != "/" && k.matches('/').count() == 1)
                .map(|k| crate::tree::EditOp::Remove { path: k.clone() })
                .collect();
            let opts = crate::genr::draw_opts_small_blocks(&mut r);
            let cfg = crate::genr::GenCfg::draw(&mut r, &opts, false);
            let mut g = crate::genr::Gen::new(r.derive("after-leftover"));
            g.next_cseed = 7_000_000;
            g.clock = 7_000_000;
            for e in &es {
                model.apply(e);
            }
            es.extend(g.burst(&model, &cfg, 1 + r.usize(3)));
            sc.steps.push(Step::Edit(es));
            sc.steps.push(Step::Backup { opts, plan: FaultPlan::none() });
        }
    }
    // the band set is drawn at execution time from what exists: store the draw seed
    sc.steps.push(Step::Delete {
        bands: vec![],
        dry_run: if leftover { r.chance(1, 2) } else { r.chance(1, 5) },
        break_lock: r.chance(1, 3),
        plan: FaultPlan::none(),
    });
    sc.params = json!({"enumerate": true, "draw_bands": r.next_u64()});
    sc
}

fn run(seed: u64, tier: Tier, acc: &mut Acc) -> Vec<Found> {
    let sc = generate(seed, tier);
    match execute_found(&sc, acc) {
        Ok(f) => {
            acc.sample(sc.compact());
            f
        }
        Err(e) => {
            acc.harness_errors.push(format!("C05 seed {seed}: {e}"));
            vec![]
        }
    }
}

fn execute(sc: &Scenario, acc: &mut Acc) -> Result<Vec<Violation>, String> {
    Ok(execute_found(sc, acc)?.into_iter().map(|f| f.violation).collect())
}

/// Store files that differ between two stores, ignoring GC_LOCK.
fn store_diff(a: &crate::store::MemStore, b: &crate::store::MemStore) -> Vec<String> {
    let mut out = Vec::new();
    for (p, x) in a.files() {
        if p == "GC_LOCK" {
            continue;
        }
        match b.file(p) {
            Some(y) if x == y => {}
            Some(y) if (p.ends_with("BANDHEAD") || p.ends_with("BANDTAIL")) && mask_times(x) == mask_times(y) => {}
            Some(_) => out.push(format!("{p} altered")),
            None => out.push(format!("{p} removed")),
        }
    }
    for (p, _) in b.files() {
        if p != "GC_LOCK" && a.file(p).is_none() {
            out.push(format!("{p} added"));
        }
    }
    out
}

fn remaining_versions_restore(w: &mut World, acc: &mut Acc, what: &str, out: &mut Vec<Violation>) {
    for id in w.complete_versions() {
        let v = w.versions[&id].clone();
        out.extend(expect_restore_equals(w, acc, "C05", Some(id), &v.snap, v.opts.owner, &format!("{what}: restore of kept b{id:04}")));
    }
}

fn execute_found(sc: &Scenario, acc: &mut Acc) -> Result<Vec<Found>, String> {
    let prop = "C05";
    let enumerate = sc.params.get("enumerate").and_then(|v| v.as_bool()).unwrap_or(false);
    let mut w = World::new(sc.env.clone(), sc.root_meta);
    acc.runs += 1;
    *acc.backends.entry("mem".into()).or_default() += 1;
    let (last, prefix) = sc.steps.split_last().ok_or("empty scenario")?;
    let Step::Delete { bands: given_bands, dry_run, break_lock, plan: given_plan } = last else {
        return Err("last step must be a delete".into());
    };
    for step in prefix {
        exec_step(&mut w, step, acc, false)?;
    }
    let pre = w.store();
    let pre_hash = pre.state_hash();
    let pre_view = format::decode(&pre);
    let existing: Vec<u32> = pre_view.bands.keys().copied().collect();
    // draw the band set (explicit in replay files)
    let bands: Vec<u32> = match sc.params.get("draw_bands").and_then(|v| v.as_u64()) {
        Some(seed) if given_bands.is_empty() && enumerate => {
            let mut r = Rng::new(seed);
            match r.below(6) {
                0 => vec![],
                1 => existing.clone(),
                _ => existing.iter().copied().filter(|_| r.chance(1, 2)).collect(),
            }
        }
        _ => given_bands.clone(),
    };
    if bands.is_empty() {
        acc.hit("pure_gc");
    }
    if !existing.is_empty() && bands.len() == existing.len() {
        acc.hit("delete_all_versions");
    }
    let mk_scenario = |plan: &FaultPlan| {
        let mut fsc = sc.clone();
        *fsc.steps.last_mut().unwrap() = Step::Delete {
            bands: bands.clone(),
            dry_run: *dry_run,
            break_lock: *break_lock,
            plan: plan.clone(),
        };
        fsc.params = json!({"enumerate": false});
        fsc
    };
    // model prediction of refusal
    let newest_incomplete = pre_view.bands.iter().next_back().map(|(_, b)| !b.is_closed()).unwrap_or(false);
    let lock_held = pre.nodes.contains_key("GC_LOCK") && !*break_lock;
    let kept_unopenable = pre_view.bands.iter().any(|(id, b)| !bands.contains(id) && !matches!(b.head, FileView::Ok(_)));
    // A kept band holding a hunk file that does not decode - in these histories only the
    // zero-length leftover of a write killed between creating and filling the file, a state
    // that lies outside the property's quantifier (histories "as C02": stopped BEFORE an
    // operation) and that the even seeds add on top of it. Conserve refuses the delete then,
    // because it cannot know what that hunk referenced; that is not demanded otherwise.
    let kept_unreadable_hunk = pre_view.bands.iter().any(|(id, b)| !bands.contains(id) && b.hunks.values().any(|h| !matches!(h, FileView::Ok(_))));
    let must_refuse = newest_incomplete || lock_held;
    let may_refuse = must_refuse || kept_unopenable || kept_unreadable_hunk;
    if kept_unreadable_hunk {
        acc.hit("kept_band_with_zero_length_hunk");
    }

    let mut founds_v: Vec<Found> = Vec::new();
    let mut plans: Vec<FaultPlan> = Vec::new();
    let run_faultfree = enumerate || given_plan.is_faultless();
    let mut trace_len = 0;
    let mut trace: Vec<crate::sim::OpRecord> = Vec::new();
    if run_faultfree {
        // ---- the fault-free delete, full oracle
        let mut fw = w.fork();
        let mut out: Vec<Violation> = Vec::new();
        let d = fw.delete(&bands, *dry_run, *break_lock, FaultPlan::none());
        acc.calls += 1;
        acc.evaluations += 1;
        acc.ops += d.call.ops as u64;
        trace_len = d.call.ops;
        trace = fw.core.log_since(d.call.log_from);
        let post = fw.store();
        acc.states.insert(post.state_hash());
        let post_view = format::decode(&post);
        match &d.outcome {
            Outcome::Panicked(p) => out.push(Violation::new(prop, "delete_no_panic", panic_disc(p), format!("delete {bands:?} panicked at {}:{}: {}", p.file, p.line, p.msg))),
            Outcome::Done(Ok(stats)) => {
                if must_refuse {
                    out.push(Violation::new(
                        prop,
                        "delete_refused_when_unsafe",
                        if newest_incomplete { "newest_incomplete" } else { "lock_held" },
                        format!("delete {bands:?} succeeded although newest_incomplete={newest_incomplete} lock_held={lock_held}"),
                    ));
                }
                if *dry_run {
                    acc.hit("delete_dry_run_ok");
                    let diff = store_diff(&pre, &post);
                    if !diff.is_empty() {
                        out.push(Violation::new(prop, "dry_run_changes_nothing", "store_changed", format!("dry run changed the store: {:?}", &diff[..diff.len().min(3)])));
                    }
                } else {
                    acc.hit("delete_real_ok");
                    // exactly the requested bands are gone
                    for id in &existing {
                        let present = post_view.bands.contains_key(id);
                        if bands.contains(id) && present {
                            out.push(Violation::new(prop, "exactly_requested_versions_gone", "not_deleted", format!("b{id:04} was requested but still exists")));
                        }
                        if !bands.contains(id) && !present {
                            out.push(Violation::new(prop, "exactly_requested_versions_gone", "extra_deleted", format!("b{id:04} was not requested but is gone")));
                        }
                    }
                    // no referenced block removed, no unreferenced block remains
                    for (band, path, why) in dangling_references(&post_view) {
                        out.push(Violation::new(prop, "referenced_blocks_kept", why.clone(), format!("b{band:04} {path:?}: block {why}")));
                    }
                    let refd = referenced_hashes(&post_view, post_view.bands.keys().copied());
                    for (name, (_, bv)) in &post_view.blocks {
                        if matches!(bv, BlockView::Ok { .. }) && !refd.contains(name) {
                            out.push(Violation::new(prop, "no_unreferenced_block_remains", "garbage_left", format!("block {}.. is referenced by no remaining version", &name[..12])));
                            break;
                        }
                    }
                    if stats.deleted_block_count > 0 {
                        acc.hit("garbage_blocks_collected");
                    }
                    // a block referenced both by a deleted and a kept band must survive
                    let del_refs = referenced_hashes(&pre_view, bands.iter().copied());
                    if del_refs.iter().any(|h| refd.contains(h)) {
                        acc.hit("shared_block_kept");
                    }
                    if post.nodes.contains_key("GC_LOCK") {
                        out.push(Violation::new(prop, "lock_released", "left_behind", "GC_LOCK still present after a successful delete"));
                    }
                }
            }
            Outcome::Done(Err(e)) => {
                match e.variant.as_str() {
                    "DeleteWithIncompleteBackup" => acc.hit("delete_refused_incomplete_newest"),
                    "GarbageCollectionLockHeld" => acc.hit("delete_refused_lock_held"),
                    _ => acc.hit("delete_refused_other"),
                }
                if !may_refuse {
                    out.push(Violation::new(
                        prop,
                        "delete_succeeds_when_safe",
                        format!("error:{}", e.variant),
                        format!("delete {bands:?} (dry_run={dry_run}) failed although nothing forbids it: {}", e.text),
                    ));
                }
                let diff = store_diff(&pre, &post);
                if !diff.is_empty() {
                    out.push(Violation::new(prop, "refused_delete_changes_nothing", "store_changed", format!("refused delete changed the store: {:?}", &diff[..diff.len().min(3)])));
                }
            }
            other => out.push(Violation::new(prop, "delete_completes", outcome_disc(other), outcome_text(other))),
        }
        remaining_versions_restore(&mut fw, acc, "after fault-free delete", &mut out);
        if !out.is_empty() {
            let fsc = mk_scenario(&FaultPlan::none());
            let mut seen = BTreeSet::new();
            out.retain(|v| seen.insert(v.signature()));
            founds_v.extend(founds(&fsc, out));
        }
    }
    if enumerate && !*dry_run {
        for rec in &trace {
            plans.push(FaultPlan::single(rec.idx, Fault::CrashBefore));
            if matches!(rec.verb, "read" | "list" | "stat") {
                plans.push(FaultPlan::single(rec.idx, Fault::Fail(EKind::Other)));
                plans.push(FaultPlan::single(rec.idx, Fault::Fail(EKind::NotFound)));
            }
        }
        let _ = trace_len;
        acc.exhaustive_within_scenario = true;
        if super::cap_plans(&mut plans, super::plan_cap(3 * w.store().nodes.len(), 2000), sc.seed) {
            acc.exhaustive_within_scenario = false;
            acc.hit("enumeration_capped");
        }
    } else if !given_plan.is_faultless() {
        plans.push(given_plan.clone());
    }
    let removes_something = !bands.is_empty() || {
        let refd = referenced_hashes(&pre_view, pre_view.bands.keys().copied());
        pre_view.blocks.iter().any(|(n, (_, b))| matches!(b, BlockView::Ok { .. }) && !refd.contains(n))
    };
    for plan in plans {
        let mut cw = w.fork();
        let mut out: Vec<Violation> = Vec::new();
        let d = cw.delete(&bands, *dry_run, *break_lock, plan.clone());
        acc.calls += 1;
        acc.evaluations += 1;
        acc.ops += d.call.ops as u64;
        acc.faults_of(&d.call.fired);
        let log = cw.core.log_since(d.call.log_from);
        let lock_taken = log.iter().any(|r| r.path == "GC_LOCK" && r.is_ok_write());
        if removes_something && lock_taken {
            if let Some((k, f)) = d.call.fired.first() {
                acc.nontrivial.insert(rng::mix(&[pre_hash, rng::hash_str(&format!("{bands:?}{f:?}")), *k as u64]));
            }
        }
        if matches!(d.outcome, Outcome::Crashed) && log.iter().any(|r| r.verb == "rmtree" && r.mutated()) && log.last().map(|r| r.verb == "rm").unwrap_or(false) {
            acc.hit("crash_between_band_and_block_removal");
        }
        if log.iter().any(|r| r.verb == "read" && r.path.contains("/i/") && matches!(r.res, crate::sim::Res::Injected(_))) {
            acc.hit("failed_hunk_read_during_gc");
        }
        if let Outcome::Panicked(p) = &d.outcome {
            out.push(Violation::new(prop, "delete_no_panic", panic_disc(p), format!("delete {bands:?} under {:?} panicked at {}:{}: {}", d.call.fired, p.file, p.line, p.msg)));
        }
        acc.states.insert(cw.store().state_hash());
        // versions the user did not ask to delete must still be there and restore
        for id in &existing {
            if !bands.contains(id) && !cw.store().is_dir(&format::band_dir_name(*id)) {
                out.push(Violation::new(prop, "unrequested_version_survives_fault", "extra_deleted", format!("b{id:04} was not requested but is gone after {:?}", d.call.fired)));
            }
        }
        remaining_versions_restore(&mut cw, acc, &format!("after delete {bands:?} under {:?}", d.call.fired), &mut out);
        if !out.is_empty() {
            let fsc = mk_scenario(&plan);
            let mut seen = BTreeSet::new();
            out.retain(|v| seen.insert(v.signature()));
            founds_v.extend(founds(&fsc, out));
        }
    }
    let _ = VState::Complete;
    Ok(founds_v)
}
