//! C06 — a garbage collection (or delete) and a backup running together never lose data.
//! Two simulated processes race through storage one operation at a time; schedules are
//! enumerated systematically up to a preemption bound and sampled randomly beyond it.

use std::collections::BTreeSet;

use serde_json::json;

use crate::conform::dangling_references;
use crate::format;
use crate::genr::{Gen, GenCfg};
use crate::report::{Acc, CheckInfo, Found, Violation, panic_disc};
use crate::rng::{self, Rng};
use crate::scenario::{Scenario, Step, StepResult, draw_env, exec_step, expect_restore_equals};
use crate::sim::{FaultPlan, Outcome, Schedule};
use crate::tree::{EditOp, NodeKind, TreeModel};
use crate::world::{ActorSpec, CallOut, VState, World};

use super::{CheckDef, Tier, founds};

pub fn def() -> CheckDef {
    CheckDef {
        info: CheckInfo {
            id: "C06",
            level: "exploration",
            rule: "one seeded run = one archive state built by a real history (family A: the backup's basis version is being deleted; family B: garbage blocks left by a delete that was killed after removing the band, whose content reappears in the edited source; family C: a random C02-style history) and one backup racing one delete/gc as two simulated processes. Schedules: every single-preemption schedule 'first runs i operations, the other runs to its end, first finishes' for all i and both orders (thorough: also three-preemption schedules (i, k, j) on a seeded sub-grid), plus seeded random schedules biased to switch between a check (stat GC_LOCK, list bands, stat BANDTAIL) and an act (create band, write lock, remove). One evaluation = one schedule executed with the final oracle (both finished without panic; every band with a tail has all referenced blocks present and long enough and restores to its snapshot). Non-trivial: both actors performed at least one mutating operation or one refused because of the other; distinct = distinct hash of the interleaved (actor, verb, path-class) trace.",
            assumptions: &[
                "processes interact only through individually atomic storage operations (no stale listings, no torn files)",
                "no liveness is demanded: either side may refuse; a leftover lock or incomplete band is legal",
            ],
            real: super::REAL_COMPONENTS,
            stub: super::STUB_COMPONENTS,
        },
        runs: |t| if t.thorough() { 600 } else { 24 },
        run,
        execute,
        expected_probes: &[
            "backup_refused_lock_held",
            "gc_refused_incomplete_band",
            "gc_refused_concurrent_backup",
            "both_succeeded",
            "garbage_block_content_reappears",
            "basis_band_deleted_during_backup",
            "schedule_preempt1",
            "schedule_random",
        ],
    }
}

fn file_put(g: &mut Gen, cfg: &GenCfg, path: &str, size: usize) -> EditOp {
    let mut n = g.file_node(cfg, None);
    if let NodeKind::File { cseed, period, .. } = n.kind {
        n.kind = NodeKind::File { size, cseed, period };
    }
    n.meta.mode = 0o644;
    EditOp::Put { path: path.to_string(), node: n }
}

fn generate(seed: u64, tier: Tier) -> Scenario {
    let mut r = Rng::new(seed);
    let family = r.below(3);
    // the collector is sometimes asked to break a (non-existent or stale) lock first
    let bl = r.chance(1, 3);
    let mut opts = crate::genr::draw_opts_small_blocks(&mut r);
    opts.max_entries_per_hunk = *r.pick(&[2, 3, 100_000]);
    let mut env = draw_env(&mut r);
    env.delay = None;
    let cfg = GenCfg {
        names: crate::genr::NameStyle::Ascii,
        max_burst: 6,
        max_depth: 2,
        opts: opts.clone(),
        pre_epoch: false,
        nanos: false,
        special_modes: false,
        owners: false,
        symlinks: false,
        max_file: 4096,
        big_twins: false,
        raw_names: false,
        unnamed_owners: false,
    };
    let mut g = Gen::new(r.derive("gen"));
    let root_meta = g.root_meta(&cfg);
    let mut steps = Vec::new();
    let mut model = TreeModel::new(root_meta);
    let mut push_edit = |steps: &mut Vec<Step>, model: &mut TreeModel, es: Vec<EditOp>| {
        for e in &es {
            model.apply(e);
        }
        steps.push(Step::Edit(es));
    };
    let big = opts.small_file_cap as usize + 1 + r.usize(40);
    let big = big.min(4000);
    let actors;
    match family {
        0 => {
            // A: the version the backup uses as basis is deleted concurrently
            let b = g.burst(&model, &cfg, 3 + r.usize(4));
            push_edit(&mut steps, &mut model, b);
            steps.push(Step::Backup { opts: opts.clone(), plan: FaultPlan::none() });
            let mut es = vec![file_put(&mut g, &cfg, "/big", big), file_put(&mut g, &cfg, "/small", 3)];
            es.extend(g.burst(&model, &cfg, r.usize(3)));
            push_edit(&mut steps, &mut model, es);
            steps.push(Step::Backup { opts: opts.clone(), plan: FaultPlan::none() });
            if r.chance(1, 2) {
                // touch: same content, new mtime -> content is re-read and deduplicated
                let mt = g.mtime(&cfg);
                push_edit(&mut steps, &mut model, vec![EditOp::SetMeta { path: "/big".into(), mode: None, mtime: Some(mt), owner: None }]);
            }
            actors = vec![
                ActorSpec::Backup { opts: opts.clone(), alt_src: false },
                ActorSpec::Delete { bands: vec![1], dry_run: false, break_lock: bl },
            ];
        }
        1 => {
            // B: garbage blocks whose content reappears
            let b = g.burst(&model, &cfg, 2 + r.usize(4));
            push_edit(&mut steps, &mut model, b);
            steps.push(Step::Backup { opts: opts.clone(), plan: FaultPlan::none() });
            let x_big = file_put(&mut g, &cfg, "/xbig", big);
            let x_small = file_put(&mut g, &cfg, "/xsmall", 5);
            push_edit(&mut steps, &mut model, vec![x_big.clone(), x_small.clone()]);
            steps.push(Step::Backup { opts: opts.clone(), plan: FaultPlan::none() });
            // delete b1, killed after the band directory is gone and before the first block is removed
            let mut plan = FaultPlan::none();
            plan.crash_on = Some(("rm".into(), "d/".into()));
            steps.push(Step::Delete { bands: vec![1], dry_run: false, break_lock: false, plan });
            // the user removes the stale lock by hand
            steps.push(Step::Damage { path: "GC_LOCK".into(), kind: crate::scenario::DamageKind::Delete, arg: 0 });
            // the same content comes back (new mtime)
            let mut again = vec![x_big, x_small];
            for e in again.iter_mut() {
                if let EditOp::Put { node, .. } = e {
                    node.meta.mtime = g.mtime(&cfg);
                }
            }
            push_edit(&mut steps, &mut model, again);
            actors = vec![
                ActorSpec::Backup { opts: opts.clone(), alt_src: false },
                ActorSpec::Delete { bands: vec![], dry_run: false, break_lock: bl },
            ];
        }
        _ => {
            // C: random history
            let hc = crate::scenario::HistoryCfg {
                min_steps: 3,
                max_steps: 8,
                interrupts: false,
                crash_empty: false,
                deletes: false,
                thorough: false,
                small_blocks: true,
            };
            let sc = crate::scenario::gen_history(&mut r, "C06", seed, &hc);
            let mut steps2 = sc.steps;
            let last_opts = steps2.iter().rev().find_map(|s| if let Step::Backup { opts, .. } = s { Some(opts.clone()) } else { None }).unwrap_or(opts.clone());
            let nb = steps2.iter().filter(|s| matches!(s, Step::Backup { .. })).count() as u32;
            let bands: Vec<u32> = (0..nb).filter(|_| r.chance(1, 2)).collect();
            steps2.push(Step::Race {
                actors: vec![
                    ActorSpec::Backup { opts: last_opts, alt_src: false },
                    ActorSpec::Delete { bands, dry_run: false, break_lock: bl },
                ],
                schedule: Schedule::Random(0),
            });
            return Scenario {
                check: "C06".into(),
                seed,
                env: sc.env,
                root_meta: sc.root_meta,
                steps: steps2,
                params: json!({"enumerate": true, "family": 2, "random": if tier.thorough() { 600 } else { 120 }, "three": tier.thorough()}),
            };
        }
    }
    steps.push(Step::Race { actors, schedule: Schedule::Random(0) });
    Scenario {
        check: "C06".into(),
        seed,
        env,
        root_meta,
        steps,
        params: json!({"enumerate": true, "family": family, "random": if tier.thorough() { 600 } else { 120 }, "three": tier.thorough()}),
    }
}

fn run(seed: u64, tier: Tier, acc: &mut Acc) -> Vec<Found> {
    let sc = generate(seed, tier);
    match execute_found(&sc, acc) {
        Ok(f) => {
            acc.sample(sc.compact());
            f
        }
        Err(e) => {
            acc.harness_errors.push(format!("C06 seed {seed}: {e}"));
            vec![]
        }
    }
}

fn execute(sc: &Scenario, acc: &mut Acc) -> Result<Vec<Violation>, String> {
    Ok(execute_found(sc, acc)?.into_iter().map(|f| f.violation).collect())
}

pub fn path_class(p: &str) -> &'static str {
    if p.is_empty() {
        "root"
    } else if p == "GC_LOCK" {
        "lock"
    } else if p == "CONSERVE" {
        "header"
    } else if p.ends_with("BANDHEAD") {
        "head"
    } else if p.ends_with("BANDTAIL") {
        "tail"
    } else if p.contains("/i") {
        "index"
    } else if p.starts_with('d') {
        "blocks"
    } else {
        "band"
    }
}

fn execute_found(sc: &Scenario, acc: &mut Acc) -> Result<Vec<Found>, String> {
    let prop = "C06";
    let enumerate = sc.params.get("enumerate").and_then(|v| v.as_bool()).unwrap_or(false);
    let n_random = sc.params.get("random").and_then(|v| v.as_u64()).unwrap_or(0);
    let three = sc.params.get("three").and_then(|v| v.as_bool()).unwrap_or(false);
    let mut w = World::new(sc.env.clone(), sc.root_meta);
    acc.runs += 1;
    *acc.backends.entry("mem".into()).or_default() += 1;
    let (last, prefix) = sc.steps.split_last().ok_or("empty scenario")?;
    let Step::Race { actors, schedule: given } = last else {
        return Err("last step must be a race".into());
    };
    for step in prefix {
        exec_step(&mut w, step, acc, false)?;
    }
    // probes about the pre-state
    let pre_view = w.view();
    {
        let refd = crate::conform::referenced_hashes(&pre_view, pre_view.bands.keys().copied());
        let garbage: Vec<&String> = pre_view.blocks.keys().filter(|h| !refd.contains(*h)).collect();
        if !garbage.is_empty() {
            // does any garbage block hold bytes of a current source file?
            for g in garbage {
                if let Some((_, format::BlockView::Ok { data })) = pre_view.blocks.get(g) {
                    if w.snap.values().any(|s| s.kind == 'f' && !s.data.is_empty() && (s.data.as_slice() == &data[..] || data.windows(s.data.len().max(1)).any(|wd| wd == s.data.as_slice()))) {
                        acc.hit("garbage_block_content_reappears");
                        break;
                    }
                }
            }
        }
    }
    let mut schedules: Vec<Schedule> = Vec::new();
    if enumerate {
        // learn the two trace lengths from sequential runs in both orders
        let mut lens = [0u32; 2];
        for first in [1u32, 2u32] {
            let mut pw = w.fork();
            let rr = pw.race(actors, &Schedule::Preempt { first, points: vec![] });
            lens[(first - 1) as usize] = rr.actors[(first - 1) as usize].ops;
        }
        for first in [1u32, 2u32] {
            let n = lens[(first - 1) as usize];
            for i in 0..=n {
                schedules.push(Schedule::Preempt { first, points: vec![i] });
            }
            if three {
                let other = lens[(2 - first) as usize];
                let mut r = Rng::new(sc.seed ^ 0x333 ^ first as u64);
                for _ in 0..200 {
                    let i = r.below(n as u64 + 1) as u32;
                    let k = 1 + r.below(other.max(1) as u64) as u32;
                    let j = 1 + r.below((n - i.min(n)).max(1) as u64) as u32;
                    schedules.push(Schedule::Preempt { first, points: vec![i, k, j] });
                }
            }
        }
        let mut r = Rng::new(sc.seed ^ 0x5ced);
        for _ in 0..n_random {
            schedules.push(Schedule::Random(r.next_u64()));
        }
        acc.exhaustive_within_scenario = false;
    } else {
        schedules.push(given.clone());
    }
    let mut founds_v: Vec<Found> = Vec::new();
    let mut seen_sigs: BTreeSet<String> = BTreeSet::new();
    for schedule in schedules {
        let mut cw = w.fork();
        let mut out: Vec<Violation> = Vec::new();
        let rr = cw.race(actors, &schedule);
        acc.evaluations += 1;
        acc.calls += 2;
        match schedule {
            Schedule::Preempt { ref points, .. } if points.len() == 1 => acc.hit("schedule_preempt1"),
            Schedule::Preempt { .. } => acc.hit("schedule_preempt3"),
            Schedule::Random(_) => acc.hit("schedule_random"),
            Schedule::Explicit(_) => acc.hit("schedule_explicit"),
        }
        let log = cw.core.log_since(rr.log_from);
        acc.ops += log.len() as u64;
        let trace_hash = rng::mix(&log.iter().map(|r| rng::hash_str(&format!("{}{}{}", r.actor, r.verb, path_class(&r.path)))).collect::<Vec<_>>());
        acc.traces.insert(trace_hash);
        let mutators: BTreeSet<u32> = log.iter().filter(|r| r.mutated()).map(|r| r.actor).collect();
        let mut refused_by_other = false;
        for a in &rr.actors {
            match &a.outcome {
                Outcome::Panicked(p) => out.push(Violation::new(prop, "no_panic", panic_disc(p), format!("{:?} panicked at {}:{}: {}", a.spec, p.file, p.line, p.msg))),
                Outcome::Hung => out.push(Violation::new(prop, "terminates", "hung", format!("{:?} exhausted the operation budget", a.spec))),
                Outcome::Done(co) => match co.err().map(|e| e.variant.as_str()) {
                    Some("GarbageCollectionLockHeld") if matches!(a.spec, ActorSpec::Backup { .. }) => {
                        acc.hit("backup_refused_lock_held");
                        refused_by_other = true;
                    }
                    Some("DeleteWithIncompleteBackup") => {
                        acc.hit("gc_refused_incomplete_band");
                        refused_by_other = true;
                    }
                    Some("GarbageCollectionLockHeldDuringBackup") => {
                        acc.hit("gc_refused_concurrent_backup");
                        refused_by_other = true;
                    }
                    _ => {}
                },
                _ => {}
            }
        }
        if rr.actors.iter().all(|a| matches!(&a.outcome, Outcome::Done(co) if co.is_ok())) {
            acc.hit("both_succeeded");
        }
        if mutators.len() >= 2 || refused_by_other {
            acc.nontrivial.insert(trace_hash);
        }
        // was the backup's basis band removed while it ran?
        if log.iter().any(|r| r.verb == "rmtree" && r.mutated()) && rr.actors.iter().any(|a| !a.bands_created.is_empty()) {
            acc.hit("basis_band_deleted_during_backup");
        }
        let st = cw.store();
        acc.states.insert(st.state_hash());
        let view = format::decode(&st);
        let closed: BTreeSet<u32> = view.bands.iter().filter(|(_, b)| b.is_closed()).map(|(i, _)| *i).collect();
        for (band, path, why) in dangling_references(&view) {
            if closed.contains(&band) {
                out.push(Violation::new(prop, "complete_version_references_present_blocks", why.clone(), format!("b{band:04} (complete) {path:?}: block {why}")));
                break;
            }
        }
        for id in cw.complete_versions() {
            let v = cw.versions[&id].clone();
            out.extend(expect_restore_equals(&mut cw, acc, prop, Some(id), &v.snap, v.opts.owner, &format!("after the race: restore of complete b{id:04}")));
        }
        // a band with a tail that the model does not know would be a harness gap; flag it
        for id in &closed {
            if !cw.versions.contains_key(id) {
                return Err(format!("harness: complete band b{id:04} has no model entry"));
            }
            if cw.versions[id].state != VState::Complete {
                return Err(format!("harness: band b{id:04} closed in store but not in model"));
            }
        }
        if !out.is_empty() {
            let mut fsc = sc.clone();
            *fsc.steps.last_mut().unwrap() = Step::Race {
                actors: actors.clone(),
                schedule: Schedule::Explicit(rr.trace.clone()),
            };
            fsc.params = json!({"enumerate": false});
            let mut seen = BTreeSet::new();
            out.retain(|v| seen.insert(v.signature()));
            // keep one scenario per signature per run (schedules are many)
            out.retain(|v| seen_sigs.insert(v.signature()));
            founds_v.extend(founds(&fsc, out));
        }
        let _ = CallOut::Backup;
    }
    Ok(founds_v)
}
