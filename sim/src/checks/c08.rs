//! C08 — listing a version follows the stitching rule, strictly ordered, and terminates.
//! Archive states come (1) from real histories with many interrupted backups and small hunks
//! and (2) from state injection: bands written directly in format 0.6 with every hunk layout.

use std::collections::BTreeSet;

use serde_json::json;

use crate::format::{self, DEntry, first_order_violation, ref_is_ancestor_or_self, ref_stitch};
use crate::glob::ref_excluded;
use crate::report::{Acc, CheckInfo, Found, Violation};
use crate::rng::{self, Rng};
use crate::scenario::{HistoryCfg, InjBand, InjEntry, Scenario, Step, draw_env, exec_step, gen_history, outcome_disc, outcome_text};
use crate::sim::{Fault, FaultPlan, Outcome};
use crate::tree::Meta;
use crate::world::World;

use super::{CheckDef, Tier, founds};

pub fn def() -> CheckDef {
    CheckDef {
        info: CheckInfo {
            id: "C08",
            level: "exploration",
            rule: "seeded runs of two kinds. (history) real histories with small max_entries_per_hunk in which many backups are killed before a drawn operation, with deletes in between. (injection) up to 6 bands written by the harness directly in format 0.6: each complete / incomplete / head-less / hunk-less / absent, entries drawn from an ordering-exercising path universe (bytes below and above '/', extension siblings, multi-byte names), split into hunks at seeded boundaries, trailing hunk files missing. For every band that has a head, every subtree among '/', existing directories, files, and non-existent siblings/prefixes, and for no exclusion and a drawn exclusion set, Archive::iter_entries is compared entry by entry with reference-stitch o reference-ancestor-filter o reference-exclusion over the independent decoder's view, must be strictly increasing under the reference order, and must finish within the operation budget. One evaluation = one (band, subtree, exclusion) query. Non-trivial: the listing crosses at least two bands; distinct = distinct (store hash, band, subtree, exclusions).",
            assumptions: &[
                "bands whose head does not decode are passed over by rule; the band being listed must itself open",
                "injected entries carry no block addresses (listing never reads blocks)",
            ],
            real: super::REAL_COMPONENTS,
            stub: super::STUB_COMPONENTS,
        },
        runs: |t| if t.thorough() { 400_000 } else { 15_000 },
        run,
        execute,
        expected_probes: &[
            "stitch_crossed_two_bands",
            "stitch_crossed_three_bands",
            "resume_inside_hunk",
            "resume_at_hunk_start",
            "whole_hunk_skipped",
            "headless_band_passed_over",
            "hunkless_band",
            "multibyte_subtree",
            "subtree_nonexistent",
            "exclusion_applied",
            "injected_state",
            "history_state",
            "empty_hunk_in_chain",
        ],
    }
}

const NAMES: &[&str] = &["a", "ab", "a.b", "a-b", "a b", "a~", "b", ".a", "é", "éa", "é.b", "語", "z", "0", "A", "🙂"];

fn gen_universe(r: &mut Rng) -> Vec<(String, &'static str)> {
    // a tree-shaped set of valid apaths with kinds
    let mut dirs: Vec<String> = vec!["/".to_string()];
    let mut out: Vec<(String, &'static str)> = vec![("/".to_string(), "Dir")];
    let n = 4 + r.usize(18);
    for _ in 0..n {
        let d = r.pick(&dirs).clone();
        if d.matches('/').count() > 3 {
            continue;
        }
        let name = *r.pick(NAMES);
        let p = crate::tree::join_apath(&d, name);
        if out.iter().any(|(q, _)| *q == p) {
            continue;
        }
        let kind = match r.below(5) {
            0 | 1 => "Dir",
            2 => "Symlink",
            _ => "File",
        };
        if kind == "Dir" {
            dirs.push(p.clone());
        }
        out.push((p, kind));
    }
    out.sort_by(|a, b| format::ref_cmp(&a.0, &b.0));
    out
}

fn gen_injection(seed: u64) -> Scenario {
    let mut r = Rng::new(seed);
    let universe = gen_universe(&mut r);
    let nb = 1 + r.usize(6);
    let mut bands = Vec::new();
    let mut id = 0u32;
    for _ in 0..nb {
        id += 1 + if r.chance(1, 4) { r.below(3) as u32 } else { 0 }; // gaps = deleted bands
        let entries: Vec<InjEntry> = universe
            .iter()
            .enumerate()
            .filter(|(i, _)| *i == 0 || r.chance(3, 4))
            .map(|(i, (p, k))| InjEntry { apath: p.clone(), kind: k.to_string(), marker: id as i64 * 1000 + i as i64 })
            .collect();
        // split into hunks
        let mut hunks: Vec<Option<Vec<InjEntry>>> = Vec::new();
        let mut cur = Vec::new();
        let style = r.below(4);
        for e in entries {
            cur.push(e);
            let cut = match style {
                0 => true,
                1 => cur.len() >= 2,
                2 => r.chance(1, 3),
                _ => false,
            };
            if cut {
                hunks.push(Some(std::mem::take(&mut cur)));
            }
        }
        if !cur.is_empty() {
            hunks.push(Some(cur));
        }
        let kind = r.below(10);
        let (head, complete) = match kind {
            0 => (false, false),          // head-less
            1..=4 => (true, true),        // complete
            _ => (true, false),           // incomplete
        };
        if kind == 9 {
            hunks.clear(); // hunk-less
        }
        if r.chance(1, 5) {
            // an empty hunk is legal (old versions wrote them)
            let at = r.usize(hunks.len() + 1);
            hunks.insert(at, Some(Vec::new()));
        }
        let total = hunks.len();
        if !complete && total > 0 {
            // trailing hunks missing
            let keep = r.usize(total + 1);
            hunks.truncate(keep);
        }
        bands.push(InjBand {
            id: id - 1,
            head,
            tail: if complete { Some(hunks.len() as u64) } else { None },
            hunks,
            tail_form: if r.chance(1, 4) { 1 + r.below(2) as u8 } else { 0 },
        });
    }
    let mut env = draw_env(&mut r);
    env.delay = None;
    let exclude = match r.below(4) {
        0 => vec![format!("/{}", r.pick(NAMES))],
        1 => vec![r.pick(NAMES).to_string()],
        2 => vec!["a*".to_string()],
        _ => vec![format!("{}/**", r.pick(NAMES)), "?".to_string()],
    };
    Scenario {
        check: "C08".into(),
        seed,
        env,
        root_meta: Meta { mode: 0o755, mtime: (1_600_000_000, 0), uid: 0, gid: 0 },
        steps: vec![Step::InjectBands(bands)],
        params: json!({"kind": "injection", "exclude": exclude}),
    }
}

fn gen_hist(seed: u64, tier: Tier) -> Scenario {
    let mut r = Rng::new(seed);
    let hc = HistoryCfg {
        min_steps: 4,
        max_steps: if tier.thorough() { 14 } else { 9 },
        interrupts: true,
        crash_empty: false,
        deletes: true,
        thorough: false,
        small_blocks: true,
    };
    let mut sc = gen_history(&mut r, "C08", seed, &hc);
    // small hunks and more interruptions
    for s in sc.steps.iter_mut() {
        if let Step::Backup { opts, plan } = s {
            opts.max_entries_per_hunk = *r.pick(&[1, 2, 3]);
            if plan.is_faultless() && r.chance(1, 2) {
                *plan = FaultPlan::single(10 + r.below(50) as u32, Fault::CrashBefore);
            }
        }
    }
    sc.params = json!({"kind": "history", "exclude": [r.pick(NAMES).to_string()]});
    sc
}

fn run(seed: u64, tier: Tier, acc: &mut Acc) -> Vec<Found> {
    let sc = if seed % 4 == 0 { gen_hist(seed, tier) } else { gen_injection(seed) };
    match execute(&sc, acc) {
        Ok(vs) => {
            acc.sample(sc.compact());
            founds(&sc, vs)
        }
        Err(e) => {
            acc.harness_errors.push(format!("C08 seed {seed}: {e}"));
            vec![]
        }
    }
}

fn subtrees_for(view: &format::ArchiveView, r: &mut Rng) -> Vec<String> {
    let mut all: BTreeSet<String> = BTreeSet::new();
    for b in view.bands.values() {
        for e in b.own_entries() {
            all.insert(e.apath);
        }
    }
    let mut v: Vec<String> = all.iter().cloned().collect();
    r.shuffle(&mut v);
    let mut out = vec!["/".to_string()];
    out.extend(v.iter().take(5).cloned());
    // non-existent siblings / prefixes
    if let Some(p) = v.first() {
        if p != "/" {
            out.push(format!("{p}x"));
            let cut: String = p.chars().take(p.chars().count().saturating_sub(1)).collect();
            if cut.len() > 1 && !cut.ends_with('/') {
                out.push(cut);
            }
        }
    }
    out.push("/nonexistent".to_string());
    out.retain(|s| format::ref_valid(s));
    out
}

fn execute(sc: &Scenario, acc: &mut Acc) -> Result<Vec<Violation>, String> {
    let prop = "C08";
    let mut out: Vec<Violation> = Vec::new();
    let mut w = World::new(sc.env.clone(), sc.root_meta);
    acc.runs += 1;
    *acc.backends.entry("mem".into()).or_default() += 1;
    let kind = sc.params.get("kind").and_then(|v| v.as_str()).unwrap_or("injection");
    acc.hit(if kind == "history" { "history_state" } else { "injected_state" });
    let exclude: Vec<String> = sc
        .params
        .get("exclude")
        .and_then(|v| v.as_array())
        .map(|a| a.iter().filter_map(|x| x.as_str().map(String::from)).collect())
        .unwrap_or_default();
    for step in &sc.steps {
        exec_step(&mut w, step, acc, false)?;
    }
    let st = w.store();
    let state_hash = st.state_hash();
    acc.states.insert(state_hash);
    let view = format::decode(&st);
    let mut r = Rng::new(sc.seed ^ 0x5b7);
    let subtrees = subtrees_for(&view, &mut r);
    for (id, bv) in &view.bands {
        if !bv.head_ok() {
            continue;
        }
        let stitched = ref_stitch(&view, *id);
        let donors: BTreeSet<u32> = stitched.iter().map(|(b, _)| *b).collect();
        if donors.len() >= 2 {
            acc.hit("stitch_crossed_two_bands");
        }
        if donors.len() >= 3 {
            acc.hit("stitch_crossed_three_bands");
        }
        if bv.hunks.is_empty() {
            acc.hit("hunkless_band");
        }
        if view.bands.values().any(|b| b.hunks.values().any(|h| matches!(h, format::FileView::Ok(es) if es.is_empty()))) {
            acc.hit("empty_hunk_in_chain");
        }
        // reach: where does the resume point fall in the donor's hunks?
        if !bv.is_closed() {
            if let Some(last) = bv.own_entries().last() {
                for (_, prev) in view.bands.range(..*id).rev() {
                    if !prev.has_head() {
                        acc.hit("headless_band_passed_over");
                        continue;
                    }
                    for h in prev.hunks.values() {
                        if let format::FileView::Ok(es) = h {
                            if es.is_empty() {
                                continue;
                            }
                            let first_after = format::ref_cmp(&es[0].apath, &last.apath) == std::cmp::Ordering::Greater;
                            let last_after = format::ref_cmp(&es[es.len() - 1].apath, &last.apath) == std::cmp::Ordering::Greater;
                            if !first_after && last_after {
                                acc.hit("resume_inside_hunk");
                            }
                            if !last_after {
                                acc.hit("whole_hunk_skipped");
                            }
                            if first_after {
                                acc.hit("resume_at_hunk_start");
                            }
                        }
                    }
                    break;
                }
            }
        }
        for s in &subtrees {
            if !s.is_ascii() {
                acc.hit("multibyte_subtree");
            }
            if s == "/nonexistent" {
                acc.hit("subtree_nonexistent");
            }
            for ex in [Vec::new(), exclude.clone()] {
                let want: Vec<DEntry> = stitched
                    .iter()
                    .map(|(_, e)| e)
                    .filter(|e| ref_is_ancestor_or_self(s, &e.apath) && !ref_excluded(&ex, &e.apath))
                    .cloned()
                    .collect();
                if !ex.is_empty() && want.len() < stitched.iter().filter(|(_, e)| ref_is_ancestor_or_self(s, &e.apath)).count() {
                    acc.hit("exclusion_applied");
                }
                let lr = w.list(Some(*id), s, &ex);
                acc.calls += 1;
                acc.evaluations += 1;
                acc.ops += lr.call.ops as u64;
                if donors.len() >= 2 {
                    acc.nontrivial.insert(rng::mix(&[state_hash, *id as u64, rng::hash_str(s), ex.len() as u64]));
                }
                match &lr.outcome {
                    Outcome::Done(Ok(entries)) => {
                        let got: Vec<DEntry> = entries.iter().map(format::dentry_of).collect();
                        if let Some((a, b)) = first_order_violation(got.iter().map(|e| e.apath.as_str())) {
                            out.push(Violation::new(
                                prop,
                                "listing_strictly_increasing",
                                if a == b { "duplicate" } else { "out_of_order" },
                                format!("b{id:04} subtree {s:?} exclude {ex:?}: {a:?} is followed by {b:?}"),
                            ));
                        }
                        if got != want {
                            let gp: Vec<&str> = got.iter().map(|e| e.apath.as_str()).collect();
                            let wp: Vec<&str> = want.iter().map(|e| e.apath.as_str()).collect();
                            let disc = if gp == wp {
                                "entry_from_wrong_band"
                            } else if wp.iter().all(|p| gp.contains(p)) {
                                "extra_entries"
                            } else if gp.iter().all(|p| wp.contains(p)) {
                                "missing_entries"
                            } else {
                                "different_entries"
                            };
                            let filt = if s != "/" { "subtree" } else if !ex.is_empty() { "exclude" } else { "plain" };
                            out.push(Violation::new(
                                prop,
                                "listing_equals_reference_stitch",
                                format!("{disc}:{filt}"),
                                format!("b{id:04} subtree {s:?} exclude {ex:?}: got {gp:?}, reference {wp:?}"),
                            ));
                        }
                    }
                    Outcome::Hung => out.push(Violation::new(prop, "listing_terminates", "hung", format!("b{id:04} subtree {s:?}: operation budget exhausted"))),
                    other => out.push(Violation::new(prop, "listing_completes", outcome_disc(other), format!("b{id:04} subtree {s:?}: {}", outcome_text(other)))),
                }
            }
        }
    }
    let mut seen = BTreeSet::new();
    out.retain(|v| seen.insert(v.signature()));
    Ok(out)
}
