//! C07 — archive files are write-once: backup never alters or removes existing files; only
//! delete/gc removes, and only what it may; two racing backups never share a band.
//! Runs on the in-memory store and on the REAL transport/local.rs (tmpfs) behind the interceptor.

use std::collections::{BTreeMap, BTreeSet};

use serde_json::json;

use crate::conform::referenced_hashes;
use crate::format;
use crate::genr::{Gen, GenCfg};
use crate::report::{Acc, CheckInfo, Found, Violation, panic_disc};
use crate::rng::{self, Rng};
use crate::scenario::{HistoryCfg, Scenario, Step, StepResult, exec_step, gen_history};
use crate::sim::{FaultPlan, OpRecord, Outcome, Pre, Res, Schedule};
use crate::store::MemStore;
use crate::tree::TreeModel;
use crate::world::{ActorSpec, World};

use super::c06::path_class;
use super::{CheckDef, Tier, founds};

pub fn def() -> CheckDef {
    CheckDef {
        info: CheckInfo {
            id: "C07",
            level: "exploration",
            rule: "seeded runs of two kinds, each on the in-memory store or (one run in three) on the real local-filesystem transport on tmpfs behind the same interceptor. (history) C02-style histories including backups killed before an operation or leaving a zero-length file, resumed backups, deletes and gc: after every step the operation log and a byte-for-byte before/after image of the store are checked (backup: every pre-existing non-empty file identical, no removal, no successful write onto a non-empty file, no path written twice, new band id above all existing; delete: writes only GC_LOCK, removes only requested band directories, blocks unreferenced by the kept bands, and its own GC_LOCK; after every step a restore, a quick validation and a listing must perform no mutating storage operation at all). (race) two backups of different source trees as two simulated processes under all single-preemption schedules in both orders plus seeded random schedules: at most one process may write under any band directory, nothing pre-existing changes. Non-trivial: a history with at least two archive-changing steps, or a race in which both processes reached band creation; distinct = distinct (state-hash sequence | interleaving trace hash).",
            assumptions: &[
                "completing a zero-length leftover of a killed write is allowed; create_dir on an existing directory is not a write",
                "LocalDisk runs execute the real tokio::fs calls of transport/local.rs one at a time on /dev/shm",
            ],
            real: super::REAL_COMPONENTS,
            stub: super::STUB_COMPONENTS,
        },
        runs: |t| if t.thorough() { 6_000 } else { 240 },
        run,
        execute,
        expected_probes: &[
            "history_on_local_disk",
            "race_on_local_disk",
            "race_both_reached_band_creation",
            "race_loser_failed",
            "zero_length_leftover_completed",
            "delete_step_checked",
            "reading_operations_checked",
            "interrupted_backup",
        ],
    }
}

fn generate(seed: u64, tier: Tier) -> Scenario {
    let mut r = Rng::new(seed);
    let local = r.chance(1, 3);
    if r.chance(7, 10) {
        let hc = HistoryCfg {
            min_steps: 3,
            max_steps: if tier.thorough() { 16 } else { 8 },
            interrupts: true,
            crash_empty: true,
            deletes: true,
            thorough: false,
            small_blocks: r.chance(1, 2),
        };
        let mut sc = gen_history(&mut r, "C07", seed, &hc);
        sc.env.local_backend = local;
        if seed % 3 == 0 && !local {
            crate::scenario::sprinkle_legacy_tails(&mut r, &mut sc);
        }
        sc.params = json!({"kind": "history"});
        sc
    } else {
        // a short history, then two backups of different trees racing
        let hc = HistoryCfg {
            min_steps: 1,
            max_steps: 4,
            interrupts: false,
            crash_empty: false,
            deletes: false,
            thorough: false,
            small_blocks: true,
        };
        let mut sc = gen_history(&mut r, "C07", seed, &hc);
        sc.env.local_backend = local;
        sc.env.delay = None;
        let opts = crate::genr::draw_opts_small_blocks(&mut r);
        let cfg = GenCfg::draw(&mut r, &opts, false);
        let mut g = Gen::new(r.derive("alt"));
        g.next_cseed = 5_000_000;
        let alt_model = TreeModel::new(sc.root_meta);
        let alt = g.burst(&alt_model, &cfg, 2 + r.usize(5));
        sc.steps.push(Step::EditAlt(alt));
        sc.steps.push(Step::Race {
            actors: vec![
                ActorSpec::Backup { opts: opts.clone(), alt_src: false },
                ActorSpec::Backup { opts, alt_src: true },
            ],
            schedule: Schedule::Random(0),
        });
        // every other race happens within one simulated second (the two heads then carry the
        // same start time and are byte-identical)
        sc.params = json!({"kind": "race", "enumerate": true, "random": if tier.thorough() { 150 } else { 40 }, "clock_div": if seed % 2 == 0 { 1_000_000 } else { 1 }});
        sc
    }
}

fn run(seed: u64, tier: Tier, acc: &mut Acc) -> Vec<Found> {
    let sc = generate(seed, tier);
    match execute_found(&sc, acc) {
        Ok(f) => {
            acc.sample(sc.compact());
            f
        }
        Err(e) => {
            acc.harness_errors.push(format!("C07 seed {seed}: {e}"));
            vec![]
        }
    }
}

fn execute(sc: &Scenario, acc: &mut Acc) -> Result<Vec<Violation>, String> {
    Ok(execute_found(sc, acc)?.into_iter().map(|f| f.violation).collect())
}

fn band_of(path: &str) -> Option<u32> {
    format::parse_band_dir(path.split('/').next().unwrap_or(""))
}

/// Write-once oracle for operations that must only add (backups, alone or racing).
fn check_additive(prop: &str, what: &str, pre: &MemStore, post: &MemStore, log: &[OpRecord], out: &mut Vec<Violation>, acc: &mut Acc, single_actor: bool) {
    for (p, bytes) in pre.files() {
        if bytes.is_empty() {
            if post.file(p).map(|b| !b.is_empty()).unwrap_or(false) {
                acc.hit("zero_length_leftover_completed");
            }
            continue;
        }
        match post.file(p) {
            Some(nb) if nb == bytes => {}
            Some(_) => out.push(Violation::new(prop, "existing_files_unchanged", format!("altered:{}", path_class(p)), format!("{what}: {p} existed and now has other bytes"))),
            None => out.push(Violation::new(prop, "existing_files_unchanged", format!("removed:{}", path_class(p)), format!("{what}: {p} existed and is gone"))),
        }
    }
    let mut written: BTreeSet<&str> = BTreeSet::new();
    for r in log {
        if matches!(r.verb, "rm" | "rmtree") && r.mutated() {
            out.push(Violation::new(prop, "backup_never_removes", format!("{}:{}", r.verb, path_class(&r.path)), format!("{what}: {}", r.line())));
        }
        if r.is_ok_write() {
            if let Pre::File(n) = r.pre {
                if n > 0 {
                    out.push(Violation::new(prop, "no_write_onto_existing_file", path_class(&r.path).to_string(), format!("{what}: {} already held {n} bytes: {}", r.path, r.line())));
                }
            }
            if !written.insert(r.path.as_str()) {
                out.push(Violation::new(prop, "no_path_written_twice", path_class(&r.path).to_string(), format!("{what}: {} written twice", r.path)));
            }
        }
    }
    // a new version gets an id above every existing one
    let existing: Vec<u32> = pre.children("").unwrap_or_default().into_iter().filter_map(|(n, _)| format::parse_band_dir(&n)).collect();
    for r in log {
        // a lone backup choosing the id of a band directory that already exists has not
        // chosen "an id above every existing one", whether or not the write that follows
        // is then refused (in a race the loser legitimately arrives second)
        if single_actor && r.verb == "mkdir" && r.pre == Pre::Dir && !r.path.contains('/') {
            if let Some(id) = format::parse_band_dir(&r.path) {
                if existing.contains(&id) {
                    out.push(Violation::new(prop, "new_band_id_above_existing", "existing_id_chosen", format!("{what}: tried to create b{id:04}, which already existed ({existing:?})")));
                }
            }
        }
        if r.verb == "mkdir" && r.res == Res::Ok && r.pre == Pre::Absent && !r.path.contains('/') {
            if let Some(id) = format::parse_band_dir(&r.path) {
                if existing.iter().any(|e| *e >= id) {
                    out.push(Violation::new(prop, "new_band_id_above_existing", "not_above", format!("{what}: created b{id:04} while {existing:?} existed")));
                }
            }
        }
    }
}

fn check_delete_step(prop: &str, what: &str, pre: &MemStore, bands: &[u32], break_lock: bool, log: &[OpRecord], out: &mut Vec<Violation>) {
    let pre_view = format::decode(pre);
    // "its own lock file": one it wrote in this invocation; with break_lock, the one removal
    // that precedes taking the lock is the requested breaking of a stale lock
    let mut own_lock = false;
    let mut broke = false;
    let kept: Vec<u32> = pre_view.bands.keys().copied().filter(|b| !bands.contains(b)).collect();
    let refd = referenced_hashes(&pre_view, kept.into_iter());
    for r in log {
        if r.is_ok_write() && r.path == "GC_LOCK" {
            own_lock = true;
        }
        if r.is_ok_write() && r.path != "GC_LOCK" {
            out.push(Violation::new(prop, "delete_writes_only_lock", path_class(&r.path).to_string(), format!("{what}: {}", r.line())));
        }
        if r.verb == "rmtree" && r.mutated() {
            let ok = format::parse_band_dir(&r.path).map(|b| bands.contains(&b)).unwrap_or(false);
            if !ok {
                out.push(Violation::new(prop, "delete_removes_only_requested", "rmtree".to_string(), format!("{what}: {}", r.line())));
            }
        }
        if r.verb == "rm" && r.mutated() {
            if r.path == "GC_LOCK" {
                if own_lock {
                    own_lock = false;
                } else if break_lock && !broke {
                    broke = true;
                } else {
                    out.push(Violation::new(prop, "delete_removes_only_own_lock", "foreign_lock_removed", format!("{what}: {} (this invocation had not written a lock)", r.line())));
                }
                continue;
            }
            let name = r.path.rsplit('/').next().unwrap_or("");
            if !r.path.starts_with("d/") || refd.contains(name) {
                out.push(Violation::new(
                    prop,
                    "delete_removes_only_requested",
                    if r.path.starts_with("d/") { "referenced_block".to_string() } else { format!("rm:{}", path_class(&r.path)) },
                    format!("{what}: {}", r.line()),
                ));
            }
        }
    }
}

fn execute_found(sc: &Scenario, acc: &mut Acc) -> Result<Vec<Found>, String> {
    let prop = "C07";
    let kind = sc.params.get("kind").and_then(|v| v.as_str()).unwrap_or("history").to_string();
    let mut w = World::new(sc.env.clone(), sc.root_meta);
    let clock_div = sc.params.get("clock_div").and_then(|v| v.as_i64()).unwrap_or(1);
    w.set_clock_div(clock_div);
    if clock_div > 1 {
        acc.hit("race_within_one_second");
    }
    acc.runs += 1;
    *acc.backends.entry(if sc.env.local_backend { "local_disk" } else { "mem" }.into()).or_default() += 1;
    let mut founds_v: Vec<Found> = Vec::new();
    if kind == "history" {
        if sc.env.local_backend {
            acc.hit("history_on_local_disk");
        }
        let mut out: Vec<Violation> = Vec::new();
        let mut state_seq = Vec::new();
        for (si, step) in sc.steps.iter().enumerate() {
            let pre = w.store();
            let from = w.core.log_len();
            let res = exec_step(&mut w, step, acc, false)?;
            let log = w.core.log_since(from);
            match (&res, step) {
                (StepResult::Backup(b), Step::Backup { .. }) => {
                    acc.evaluations += 1;
                    let post = w.store();
                    state_seq.push(post.state_hash());
                    acc.states.insert(post.state_hash());
                    if matches!(b.outcome, Outcome::Crashed) {
                        acc.hit("interrupted_backup");
                    }
                    if let Outcome::Panicked(p) = &b.outcome {
                        out.push(Violation::new(prop, "backup_no_panic", panic_disc(p), format!("step {si}: {}", p.msg)));
                    }
                    check_additive(prop, &format!("step {si} (backup)"), &pre, &post, &log, &mut out, acc, true);
                }
                (StepResult::Delete(_), Step::Delete { bands, dry_run, break_lock, .. }) => {
                    acc.evaluations += 1;
                    acc.hit("delete_step_checked");
                    let post = w.store();
                    state_seq.push(post.state_hash());
                    acc.states.insert(post.state_hash());
                    check_delete_step(prop, &format!("step {si} (delete {bands:?})"), &pre, bands, *break_lock, &log, &mut out);
                    if *dry_run {
                        for r in log.iter().filter(|r| matches!(r.verb, "rm" | "rmtree") && r.mutated() && r.path != "GC_LOCK") {
                            out.push(Violation::new(prop, "dry_run_removes_nothing", r.verb.to_string(), format!("step {si}: {}", r.line())));
                        }
                    }
                }
                _ => {}
            }
            // "Only an explicit delete or gc removes files" - and only a backup adds them:
            // reading operations leave the archive as it is (whatever a killed write left)
            if matches!(step, Step::Backup { .. } | Step::Delete { .. }) {
                let from = w.core.log_len();
                let _ = w.restore(&crate::world::RestoreSpec::default());
                let _ = w.validate(true);
                let _ = w.list(None, "/", &[]);
                acc.calls += 3;
                for r in w.core.log_since(from).iter().filter(|r| r.mutated()) {
                    out.push(Violation::new(prop, "reading_operations_change_nothing", format!("{}:{}", r.verb, path_class(&r.path)), format!("after step {si}: restore/validate/list performed {}", r.line())));
                }
                acc.hit("reading_operations_checked");
            }
        }
        if state_seq.len() >= 2 {
            acc.nontrivial.insert(rng::mix(&state_seq));
        }
        let mut seen = BTreeSet::new();
        out.retain(|v| seen.insert(v.signature()));
        founds_v.extend(founds(sc, out));
        return Ok(founds_v);
    }
    // ---- race of two backups
    let enumerate = sc.params.get("enumerate").and_then(|v| v.as_bool()).unwrap_or(false);
    let n_random = sc.params.get("random").and_then(|v| v.as_u64()).unwrap_or(0);
    let (last, prefix) = sc.steps.split_last().ok_or("empty scenario")?;
    let Step::Race { actors, schedule: given } = last else {
        return Err("last step of a race scenario must be a race".into());
    };
    if sc.env.local_backend {
        acc.hit("race_on_local_disk");
    }
    let mut schedules: Vec<Schedule> = Vec::new();
    if enumerate {
        // lengths are learnt from a sequential run in a scratch world built the same way
        let mut pw = World::new(sc.env.clone(), sc.root_meta);
        pw.set_clock_div(clock_div);
        let mut a0 = Acc::default();
        for step in prefix {
            exec_step(&mut pw, step, &mut a0, false)?;
        }
        let rr = pw.race(actors, &Schedule::Preempt { first: 1, points: vec![] });
        let n1 = rr.actors[0].ops;
        let n2 = rr.actors[1].ops;
        let stride = if sc.env.local_backend { 3 } else { 1 };
        for i in (0..=n1.min(30)).step_by(stride) {
            schedules.push(Schedule::Preempt { first: 1, points: vec![i] });
        }
        for i in (0..=n2.min(30)).step_by(stride) {
            schedules.push(Schedule::Preempt { first: 2, points: vec![i] });
        }
        let mut r = Rng::new(sc.seed ^ 0x7a);
        let nr = if sc.env.local_backend { n_random / 3 } else { n_random };
        for _ in 0..nr {
            schedules.push(Schedule::Random(r.next_u64()));
        }
    } else {
        schedules.push(given.clone());
    }
    let mut seen_sigs: BTreeSet<String> = BTreeSet::new();
    for schedule in schedules {
        // a fresh world per schedule (local-disk worlds cannot be forked)
        let mut cw = World::new(sc.env.clone(), sc.root_meta);
        cw.set_clock_div(clock_div);
        let mut a0 = Acc::default();
        for step in prefix {
            exec_step(&mut cw, step, &mut a0, false)?;
        }
        let pre = cw.store();
        let rr = cw.race(actors, &schedule);
        acc.evaluations += 1;
        acc.calls += 2;
        let log = cw.core.log_since(rr.log_from);
        acc.ops += log.len() as u64;
        let post = cw.store();
        acc.states.insert(post.state_hash());
        let trace_hash = rng::mix(&log.iter().map(|r| rng::hash_str(&format!("{}{}{}", r.actor, r.verb, path_class(&r.path)))).collect::<Vec<_>>());
        acc.traces.insert(trace_hash);
        let mut out: Vec<Violation> = Vec::new();
        for a in &rr.actors {
            if let Outcome::Panicked(p) = &a.outcome {
                out.push(Violation::new(prop, "backup_no_panic", panic_disc(p), format!("racing backup panicked at {}:{}: {}", p.file, p.line, p.msg)));
            }
        }
        check_additive(prop, "two racing backups", &pre, &post, &log, &mut out, acc, false);
        // at most one process writes under any one band directory
        let mut writers: BTreeMap<u32, BTreeSet<u32>> = BTreeMap::new();
        let mut reached: BTreeSet<u32> = BTreeSet::new();
        for r in &log {
            if let Some(b) = band_of(&r.path) {
                if r.verb == "mkdir" || r.verb == "write" {
                    reached.insert(r.actor);
                }
                if r.is_ok_write() {
                    writers.entry(b).or_default().insert(r.actor);
                }
            }
        }
        if reached.len() >= 2 {
            acc.hit("race_both_reached_band_creation");
            acc.nontrivial.insert(trace_hash);
        }
        for (b, ws) in &writers {
            if ws.len() > 1 {
                out.push(Violation::new(
                    prop,
                    "one_writer_per_band",
                    "two_writers",
                    format!("both racing backups wrote files under b{b:04} (processes {ws:?})"),
                ));
            }
        }
        if rr.actors.iter().any(|a| matches!(&a.outcome, Outcome::Done(co) if !co.is_ok())) {
            acc.hit("race_loser_failed");
        }
        if !out.is_empty() {
            let mut fsc = sc.clone();
            *fsc.steps.last_mut().unwrap() = Step::Race {
                actors: actors.clone(),
                schedule: Schedule::Explicit(rr.trace.clone()),
            };
            fsc.params = json!({"kind": "race", "enumerate": false, "clock_div": clock_div});
            let mut seen = BTreeSet::new();
            out.retain(|v| seen.insert(v.signature()));
            out.retain(|v| seen_sigs.insert(v.signature()));
            founds_v.extend(founds(&fsc, out));
        }
    }
    let _ = FaultPlan::none();
    Ok(founds_v)
}
