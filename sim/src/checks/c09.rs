//! C09 — validate is accurate: silent on healthy archives, loud on damage that matters.
//! Healthy side: fault-free histories (with interrupted-with-header backups, deletes, gc),
//! validated after every step. Damage side: for the final store of a scenario, EVERY file
//! except tails x {delete, truncate 0, truncate half, garbage} plus seeded bit flips in blocks.

use std::collections::{BTreeMap, BTreeSet};

use serde_json::json;

use crate::report::{Acc, CheckInfo, Found, Violation, panic_disc};
use crate::rng::{self, Rng};
use crate::scenario::{DamageKind, HistoryCfg, Scenario, Step, apply_damage, exec_step, gen_history, outcome_disc, outcome_text};
use crate::sim::{FaultPlan, Outcome};
use crate::tree::Snap;
use crate::world::{ErrInfo, RestoreSpec, World};

use super::{CheckDef, Tier, founds};

pub fn def() -> CheckDef {
    CheckDef {
        info: CheckInfo {
            id: "C09",
            level: "fault_enumeration",
            rule: "one seeded run = one fault-free history (edits, backups with any options, backups killed after their header was written, deletes, gc). Healthy side: after every archive-changing step full and quick validation must return Ok with no error. Damage side: for the final store, EVERY stored file x {delete (not for band tails: an absent tail is the legal incomplete state), truncate to 0, truncate to half, overwrite with seeded garbage} plus two seeded bit flips per block; for each damaged store every version (complete or not) is restored and compared with its pre-damage restore, and only if some version no longer restores exactly must validation (quick for deletions, full otherwise) report at least one error or fail. One evaluation = one validated store. Non-trivial: the damage changed some version's restore; distinct = distinct (store hash, path, damage kind).",
            assumptions: &[
                "'interrupted-with-header' histories kill backups only after BANDHEAD was written and never leave zero-length files",
                "damage that changes no restore demands nothing; removal of a tail is the format's legal incomplete state and is not injected; truncation and overwriting of tails are",
            ],
            real: super::REAL_COMPONENTS,
            stub: super::STUB_COMPONENTS,
        },
        runs: |t| if t.thorough() { 600 } else { 24 },
        run,
        execute,
        expected_probes: &[
            "healthy_validated_with_interrupted_band",
            "healthy_validated_after_delete",
            "damage_changed_restore",
            "damage_immaterial",
            "damaged_header",
            "damaged_head",
            "damaged_tail",
            "damaged_hunk",
            "damaged_block",
            "bitflip_in_block",
        ],
    }
}

pub fn gen_healthy_history(seed: u64, tier: Tier, check: &str) -> Scenario {
    let mut r = Rng::new(seed);
    let hc = HistoryCfg {
        min_steps: 3,
        max_steps: if tier.thorough() { 10 } else { 7 },
        interrupts: false,
        crash_empty: false,
        deletes: true,
        thorough: false,
        small_blocks: r.chance(2, 3),
    };
    let mut sc = gen_history(&mut r, check, seed, &hc);
    // interrupted-with-header: kill some backups at a point after the head exists
    for s in sc.steps.iter_mut() {
        if let Step::Backup { plan, opts } = s {
            if r.chance(1, 3) {
                if r.chance(1, 5) {
                    // right after the header is on disk, or one or two operations later
                    plan.crash_after = Some(("write".into(), "*BANDHEAD".into()));
                    plan.crash_after_ops = r.below(3) as u32;
                    continue;
                }
                plan.crash_on = Some(match r.below(5) {
                    0 => ("write".into(), "*/i/".into()),
                    1 => ("write".into(), "*BANDTAIL".into()),
                    2 => ("write".into(), "d/".into()),
                    _ => {
                        // after one to three hunks are on disk: the stitched listing then resumes
                        // in the middle of the older version's index
                        opts.max_entries_per_hunk = *r.pick(&[1, 2, 3]);
                        plan.crash_on_skip = 1 + r.below(3) as u32;
                        ("write".into(), "*/i/".into())
                    }
                });
            }
        }
    }
    // older versions need several hunks for a resume point to fall inside their index
    if r.chance(1, 2) {
        for s in sc.steps.iter_mut() {
            if let Step::Backup { opts, .. } = s {
                opts.max_entries_per_hunk = opts.max_entries_per_hunk.min(*r.pick(&[2, 3, 5]));
            }
        }
    }
    // make sure something is stored at the end
    let mut opts = crate::genr::draw_opts_small_blocks(&mut r);
    if r.chance(1, 2) {
        // directed tail: a complete multi-hunk version, a few edits, and a backup killed after
        // one or two of its hunks are on disk, so that the newest version is a stitched one
        // whose resume point lies inside the older version's index
        opts.max_entries_per_hunk = *r.pick(&[2, 3]);
        sc.steps.push(Step::Backup { opts: opts.clone(), plan: FaultPlan::none() });
        let mut model = crate::tree::TreeModel::new(sc.root_meta);
        for s in &sc.steps {
            if let Step::Edit(es) = s {
                for e in es {
                    model.apply(e);
                }
            }
        }
        let cfg = crate::genr::GenCfg::draw(&mut r, &opts, false);
        let mut g = crate::genr::Gen::new(r.derive("tail"));
        g.next_cseed = 9_000_000;
        g.clock = 9_000_000;
        let burst = g.burst(&model, &cfg, 1 + r.usize(4));
        sc.steps.push(Step::Edit(burst));
        let mut plan = FaultPlan::none();
        plan.crash_on = Some(("write".into(), "*/i/".into()));
        plan.crash_on_skip = 1 + r.below(2) as u32;
        sc.steps.push(Step::Backup { opts, plan });
    } else if r.chance(1, 2) {
        // directed tail: a complete version, then the entry that sorts LAST is removed and
        // another complete version is made. If anything ever treated that newest version as
        // incomplete, the removed entry would come back from the older one.
        sc.steps.push(Step::Backup { opts: opts.clone(), plan: FaultPlan::none() });
        let mut model = crate::tree::TreeModel::new(sc.root_meta);
        for s in &sc.steps {
            if let Step::Edit(es) = s {
                for e in es {
                    model.apply(e);
                }
            }
        }
        let mut paths: Vec<&String> = model.nodes.keys().filter(|k| k.as_str() != "/").collect();
        paths.sort_by(|a, b| crate::format::ref_cmp(a, b));
        if let Some(last) = paths.last() {
            // remove the top-level ancestor of the last path unless that empties the tree
            sc.steps.push(Step::Edit(vec![crate::tree::EditOp::Remove { path: (*last).clone() }]));
        }
        sc.steps.push(Step::Backup { opts, plan: FaultPlan::none() });
    } else {
        sc.steps.push(Step::Backup { opts, plan: FaultPlan::none() });
    }
    sc
}

fn run(seed: u64, tier: Tier, acc: &mut Acc) -> Vec<Found> {
    let mut sc = gen_healthy_history(seed, tier, "C09");
    sc.params = json!({"enumerate": true, "flips": if tier.thorough() { 6 } else { 2 }});
    match execute_found(&sc, acc) {
        Ok(f) => {
            acc.sample(sc.compact());
            f
        }
        Err(e) => {
            acc.harness_errors.push(format!("C09 seed {seed}: {e}"));
            vec![]
        }
    }
}

fn execute(sc: &Scenario, acc: &mut Acc) -> Result<Vec<Violation>, String> {
    Ok(execute_found(sc, acc)?.into_iter().map(|f| f.violation).collect())
}

pub struct BandRestore {
    pub ok: bool,
    pub outcome: String,
    pub errors: Vec<ErrInfo>,
    pub snap: Snap,
    pub panic: Option<crate::sim::PanicInfo>,
    pub hung: bool,
}

/// Restore every band directory present in the store.
pub fn restore_all(w: &mut World, acc: &mut Acc) -> BTreeMap<u32, BandRestore> {
    let ids: Vec<u32> = w.view().bands.keys().copied().collect();
    let mut out = BTreeMap::new();
    for id in ids {
        let r = w.restore(&RestoreSpec { band: Some(id), ..Default::default() });
        acc.calls += 1;
        acc.ops += r.call.ops as u64;
        out.insert(
            id,
            BandRestore {
                ok: r.clean(),
                outcome: outcome_disc(&r.outcome),
                panic: if let Outcome::Panicked(p) = &r.outcome { Some(p.clone()) } else { None },
                hung: matches!(r.outcome, Outcome::Hung),
                errors: r.errors,
                snap: r.snap,
            },
        );
    }
    out
}

/// All single-file damages for a store: (path, kind, arg).
pub fn enumerate_damages(w: &World, seed: u64, include_tails: bool, include_header: bool, flips_everywhere: bool, flips: u64) -> Vec<(String, DamageKind, u64)> {
    let st = w.store();
    let mut r = Rng::new(seed ^ 0xDA3A6E);
    let mut out = Vec::new();
    for (p, bytes) in st.files() {
        if p == "GC_LOCK" {
            continue;
        }
        if p.ends_with("BANDTAIL") && !include_tails {
            continue;
        }
        if p == "CONSERVE" && !include_header {
            continue;
        }
        for k in [DamageKind::Delete, DamageKind::TruncateZero, DamageKind::TruncateHalf, DamageKind::Garbage] {
            out.push((p.clone(), k, r.next_u64()));
        }
        if flips_everywhere && p.contains("/i/") && !bytes.is_empty() {
            for _ in 0..flips.max(3) {
                out.push((p.clone(), DamageKind::HunkField, r.next_u64()));
            }
        }
        if (p.starts_with("d/") || flips_everywhere) && !bytes.is_empty() {
            for _ in 0..flips {
                out.push((p.clone(), DamageKind::BitFlip, r.next_u64()));
            }
        }
    }
    out
}

fn execute_found(sc: &Scenario, acc: &mut Acc) -> Result<Vec<Found>, String> {
    let prop = "C09";
    let enumerate = sc.params.get("enumerate").and_then(|v| v.as_bool()).unwrap_or(false);
    let mut w = World::new(sc.env.clone(), sc.root_meta);
    acc.runs += 1;
    *acc.backends.entry("mem".into()).or_default() += 1;
    let mut founds_v: Vec<Found> = Vec::new();
    // ---- healthy side, step by step (damage steps in a replay scenario end it)
    let mut healthy_out: Vec<Violation> = Vec::new();
    let mut damage_in_scenario: Option<(String, DamageKind, u64)> = None;
    for (si, step) in sc.steps.iter().enumerate() {
        if let Step::Damage { path, kind, arg } = step {
            damage_in_scenario = Some((path.clone(), kind.clone(), *arg));
            break;
        }
        exec_step(&mut w, step, acc, false)?;
        if matches!(step, Step::Edit(_)) {
            continue;
        }
        for quick in [false, true] {
            let v = w.validate(quick);
            acc.calls += 1;
            acc.evaluations += 1;
            acc.ops += v.call.ops as u64;
            let has_interrupted = w.versions.values().any(|v| v.state == crate::world::VState::Interrupted);
            if has_interrupted {
                acc.hit("healthy_validated_with_interrupted_band");
            }
            if matches!(step, Step::Delete { .. }) {
                acc.hit("healthy_validated_after_delete");
            }
            match &v.outcome {
                Outcome::Done(Ok(())) => {
                    if let Some(e) = v.errors.first() {
                        healthy_out.push(Violation::new(
                            prop,
                            "healthy_archive_validates_clean",
                            format!("{}:{}", if quick { "quick" } else { "full" }, e.variant),
                            format!("after step {si}: validation of an undamaged archive reported {} error(s), first: {}", v.errors.len(), e.text),
                        ));
                    }
                }
                other => healthy_out.push(Violation::new(
                    prop,
                    "healthy_archive_validates_clean",
                    format!("{}:{}", if quick { "quick" } else { "full" }, outcome_disc(other)),
                    format!("after step {si}: validation of an undamaged archive: {}", outcome_text(other)),
                )),
            }
        }
    }
    if !healthy_out.is_empty() {
        let mut seen = BTreeSet::new();
        healthy_out.retain(|v| seen.insert(v.signature()));
        // the scenario up to here reproduces it
        let mut fsc = sc.clone();
        fsc.params = json!({"enumerate": false});
        founds_v.extend(founds(&fsc, healthy_out));
    }
    // ---- damage side
    let mut damages: Vec<(String, DamageKind, u64)> = if let Some(d) = damage_in_scenario {
        vec![d]
    } else if enumerate {
        acc.exhaustive_within_scenario = true;
        // band tails: only their REMOVAL is the format's legal "incomplete" state; a tail
        // truncated or overwritten is damage like any other
        enumerate_damages(&w, sc.seed, true, true, false, sc.params.get("flips").and_then(|v| v.as_u64()).unwrap_or(2))
            .into_iter()
            .filter(|(p, k, _)| !(p.ends_with("BANDTAIL") && *k == DamageKind::Delete))
            .collect::<Vec<_>>()
    } else {
        vec![]
    };
    if super::cap_plans(&mut damages, super::plan_cap(4 * w.store().nodes.len(), 6000), sc.seed) {
        acc.hit("enumeration_capped");
    }
    if damages.is_empty() {
        return Ok(founds_v);
    }
    if w.gc_lock_present() {
        w.with_store(|m| {
            m.nodes.remove("GC_LOCK");
        });
    }
    let pre = restore_all(&mut w, acc);
    let pre_hash = w.store().state_hash();
    for (path, kind, arg) in damages {
        let mut dw = w.fork();
        if !apply_damage(&dw, &path, &kind, arg) {
            continue;
        }
        let mut out: Vec<Violation> = Vec::new();
        let class = if path == "CONSERVE" {
            "header"
        } else if path.ends_with("BANDHEAD") {
            "head"
        } else if path.ends_with("BANDTAIL") {
            "tail"
        } else if path.contains("/i/") {
            "hunk"
        } else if path.starts_with("d/") {
            "block"
        } else {
            "other"
        };
        acc.hit(&format!("damaged_{class}"));
        // for deleted hunks, say whether the format gives validate any way to notice
        let hunk_detail = if class == "hunk" {
            let view = w.view();
            let band = crate::format::parse_band_dir(path.split('/').next().unwrap_or("")).unwrap_or(u32::MAX);
            match view.bands.get(&band) {
                Some(bv) => {
                    let num: u32 = path.rsplit('/').next().and_then(|s| s.parse().ok()).unwrap_or(0);
                    let last = bv.hunks.keys().next_back() == Some(&num);
                    if bv.is_closed() {
                        "[complete_band]"
                    } else if last {
                        "[incomplete_band,last_hunk]"
                    } else {
                        "[incomplete_band,inner_hunk]"
                    }
                }
                None => "",
            }
        } else {
            ""
        };
        if kind == DamageKind::BitFlip {
            acc.hit("bitflip_in_block");
        }
        let post = restore_all(&mut dw, acc);
        let mut changed: Option<String> = None;
        for (id, a) in &pre {
            match post.get(id) {
                None => changed = Some(format!("b{id:04} no longer listed")),
                Some(b) => {
                    if a.ok && !b.ok {
                        changed = Some(format!("b{id:04} restore now {} with {} error(s)", b.outcome, b.errors.len()));
                    } else if a.snap != b.snap {
                        let mm = crate::tree::compare_snaps(&a.snap, &b.snap, Default::default());
                        changed = Some(format!("b{id:04} restores differently: {:?}", mm.first().map(|m| format!("{} {}", m.path, m.field))));
                    }
                }
            }
            if changed.is_some() {
                break;
            }
        }
        for b in post.values() {
            if let Some(p) = &b.panic {
                // C10's business, but never silently ignored
                acc.hit("restore_panicked_after_damage");
                let _ = panic_disc(p);
            }
        }
        let quick = kind == DamageKind::Delete;
        let v = dw.validate(quick);
        acc.calls += 1;
        acc.evaluations += 1;
        acc.ops += v.call.ops as u64;
        let reported = !v.errors.is_empty() || !matches!(v.outcome, Outcome::Done(Ok(())));
        match &changed {
            Some(what) => {
                acc.hit("damage_changed_restore");
                acc.nontrivial.insert(rng::mix(&[pre_hash, rng::hash_str(&path), rng::hash_str(&format!("{kind:?}{arg}"))]));
                if !reported {
                    out.push(Violation::new(
                        prop,
                        "damage_that_changes_a_restore_is_reported",
                        format!("{class}{hunk_detail}:{kind:?}:{}", if quick { "quick" } else { "full" }),
                        format!("{kind:?} of {path}: {what}; {} validation returned Ok with no error", if quick { "quick" } else { "full" }),
                    ));
                }
            }
            None => acc.hit("damage_immaterial"),
        }
        if let Outcome::Panicked(p) = &v.outcome {
            acc.hit("validate_panicked_after_damage");
            let _ = p;
        }
        if !out.is_empty() {
            let mut fsc = sc.clone();
            fsc.steps.push(Step::Damage { path: path.clone(), kind: kind.clone(), arg });
            fsc.params = json!({"enumerate": false});
            founds_v.extend(founds(&fsc, out));
        }
    }
    Ok(founds_v)
}
