//! C10 — damage to one stored file is contained and never crashes the tool.
//! For the final store of a fault-free history: EVERY file except the archive header x
//! {delete, truncate 0, truncate half, garbage} plus seeded bit flips in every file; after
//! each damage: versions, list and restore of every band, validate (full, quick), then a new
//! backup and a restore of it.

use std::collections::{BTreeMap, BTreeSet};

use serde_json::json;

use crate::format::{self, BlockView, FileView};
use crate::report::{Acc, CheckInfo, Found, Violation, panic_disc};
use crate::rng::{self, Rng};
use crate::scenario::{DamageKind, Scenario, Step, apply_damage, exec_step, expect_restore_equals, outcome_disc, outcome_text};
use crate::sim::{FaultPlan, Outcome};
use crate::world::{VState, World};

use super::c09::{enumerate_damages, gen_healthy_history, restore_all};
use super::{CheckDef, Tier, founds};

pub fn def() -> CheckDef {
    CheckDef {
        info: CheckInfo {
            id: "C10",
            level: "fault_enumeration",
            rule: "one seeded run = one fault-free history; for its final store EVERY stored file other than the archive header x {delete, truncate to 0, truncate to half, overwrite with seeded garbage} plus two (thorough: eight) seeded bit flips per file, plus for index hunks three (thorough: eight) 'structured garbage' variants: the hunk still decompresses and parses, with one field of one entry set to an extreme value (mtime_nanos >= 1e9, mtime = i64 extremes, start/len near u64::MAX, unknown kind, oversized mode). One evaluation = one damaged world on which versions/list/restore of every band, full and quick validation, a new backup and a restore of it are run. Oracles: nothing panics or exhausts the operation budget; in every band that still opens (and whose stitch donors still open) each file whose hunk and blocks are byte-identical restores exactly as before, and each file whose hunk or block is missing or undecodable is restored exactly or is covered by a reported error; after delete/truncate-to-0 damage the new backup completes and restores the source exactly. Non-trivial: the damaged file is a head, tail, hunk or block that some version uses; distinct = distinct (store hash, path, kind, arg).",
            assumptions: &[
                "a hunk that still decodes after damage (e.g. a flipped bit inside a JSON string) is unconstrained beyond no-panic/no-hang",
                "allocation for a corrupt Snappy length header is bounded by the format (4 GiB field) and not counted as a hang",
            ],
            real: super::REAL_COMPONENTS,
            stub: super::STUB_COMPONENTS,
        },
        runs: |t| if t.thorough() { 400 } else { 16 },
        run,
        execute,
        expected_probes: &[
            "damaged_head",
            "damaged_tail",
            "damaged_hunk",
            "damaged_block",
            "bitflip_in_json",
            "clean_file_checked",
            "broken_file_reported",
            "followup_backup_after_missing_file",
            "damaged_block_restored_path",
        ],
    }
}

fn run(seed: u64, tier: Tier, acc: &mut Acc) -> Vec<Found> {
    let mut sc = gen_healthy_history(seed, tier, "C10");
    sc.params = json!({"enumerate": true, "flips": if tier.thorough() { 8 } else { 2 }});
    match execute_found(&sc, acc) {
        Ok(f) => {
            acc.sample(sc.compact());
            f
        }
        Err(e) => {
            acc.harness_errors.push(format!("C10 seed {seed}: {e}"));
            vec![]
        }
    }
}

fn execute(sc: &Scenario, acc: &mut Acc) -> Result<Vec<Violation>, String> {
    Ok(execute_found(sc, acc)?.into_iter().map(|f| f.violation).collect())
}

const FILE_LEVEL_ERRORS: &[&str] = &[
    "RestoreFileBlock",
    "RestoreFile",
    "RestoreSymlink",
    "RestoreDirectory",
    "RestoreOwnership",
    "RestorePermissions",
    "RestoreModificationTime",
];

fn execute_found(sc: &Scenario, acc: &mut Acc) -> Result<Vec<Found>, String> {
    let prop = "C10";
    let enumerate = sc.params.get("enumerate").and_then(|v| v.as_bool()).unwrap_or(false);
    let mut w = World::new(sc.env.clone(), sc.root_meta);
    acc.runs += 1;
    *acc.backends.entry("mem".into()).or_default() += 1;
    let mut damage_in_scenario: Option<(String, DamageKind, u64)> = None;
    for step in &sc.steps {
        if let Step::Damage { path, kind, arg } = step {
            damage_in_scenario = Some((path.clone(), kind.clone(), *arg));
            break;
        }
        exec_step(&mut w, step, acc, false)?;
    }
    if w.gc_lock_present() {
        w.with_store(|m| {
            m.nodes.remove("GC_LOCK");
        });
    }
    let mut damages = match damage_in_scenario {
        Some(d) => vec![d],
        None if enumerate => {
            acc.exhaustive_within_scenario = true;
            enumerate_damages(&w, sc.seed, true, false, true, sc.params.get("flips").and_then(|v| v.as_u64()).unwrap_or(2))
        }
        None => vec![],
    };
    if super::cap_plans(&mut damages, super::plan_cap(6 * w.store().nodes.len(), 4000), sc.seed) {
        acc.hit("enumeration_capped");
    }
    let last_opts = sc
        .steps
        .iter()
        .rev()
        .find_map(|s| if let Step::Backup { opts, .. } = s { Some(opts.clone()) } else { None })
        .unwrap_or_default();
    let pre_store = w.store();
    let pre_hash = pre_store.state_hash();
    let pre_view = format::decode(&pre_store);
    let pre = restore_all(&mut w, acc);
    let mut founds_v: Vec<Found> = Vec::new();
    for (path, kind, arg) in damages {
        let mut dw = w.fork();
        if !apply_damage(&dw, &path, &kind, arg) {
            continue;
        }
        acc.evaluations += 1;
        let mut out: Vec<Violation> = Vec::new();
        let what = format!("{kind:?} of {path}");
        let class = if path.ends_with("BANDHEAD") {
            "head"
        } else if path.ends_with("BANDTAIL") {
            "tail"
        } else if path.contains("/i/") {
            "hunk"
        } else if path.starts_with("d/") {
            "block"
        } else {
            "other"
        };
        acc.hit(&format!("damaged_{class}"));
        if kind == DamageKind::BitFlip && class != "block" && class != "hunk" {
            acc.hit("bitflip_in_json");
        }
        if kind == DamageKind::HunkField {
            acc.hit("structured_garbage_in_hunk");
        }
        if class != "other" {
            acc.nontrivial.insert(rng::mix(&[pre_hash, rng::hash_str(&path), rng::hash_str(&format!("{kind:?}{arg}"))]));
        }
        let damaged_band = format::parse_band_dir(path.split('/').next().unwrap_or(""));
        let post_store = dw.store();
        let post_view = format::decode(&post_store);
        let mut crashy = |name: &str, disc: String, text: String, out: &mut Vec<Violation>| {
            out.push(Violation::new(prop, name, disc, format!("{what}: {text}")));
        };
        // versions
        let vi = dw.versions_info();
        acc.calls += 1;
        match &vi.outcome {
            Outcome::Panicked(p) => crashy("versions_no_panic", panic_disc(p), format!("listing versions panicked at {}:{}: {}", p.file, p.line, p.msg), &mut out),
            Outcome::Hung => crashy("versions_terminates", "hung".into(), "listing versions exhausted the operation budget".into(), &mut out),
            _ => {}
        }
        let opens: BTreeSet<u32> = match &vi.outcome {
            Outcome::Done(Ok(infos)) => infos.iter().filter(|i| i.open_err.is_none() || i.is_closed.is_some()).map(|i| i.id).collect(),
            _ => BTreeSet::new(),
        };
        // list every band
        for id in post_view.bands.keys().copied().collect::<Vec<_>>() {
            let l = dw.list(Some(id), "/", &[]);
            acc.calls += 1;
            acc.ops += l.call.ops as u64;
            match &l.outcome {
                Outcome::Panicked(p) => crashy("list_no_panic", panic_disc(p), format!("listing b{id:04} panicked at {}:{}: {}", p.file, p.line, p.msg), &mut out),
                Outcome::Hung => crashy("list_terminates", "hung".into(), format!("listing b{id:04} exhausted the operation budget"), &mut out),
                _ => {}
            }
        }
        // restore every band
        let post = restore_all(&mut dw, acc);
        for (id, b) in &post {
            if let Some(p) = &b.panic {
                crashy("restore_no_panic", panic_disc(p), format!("restore of b{id:04} panicked at {}:{}: {}", p.file, p.line, p.msg), &mut out);
            }
            if b.hung {
                crashy("restore_terminates", "hung".into(), format!("restore of b{id:04} exhausted the operation budget"), &mut out);
            }
        }
        // containment, band by band
        for (id, before) in &pre {
            let Some(after) = post.get(id) else { continue };
            if after.panic.is_some() || after.hung {
                continue;
            }
            if !opens.contains(id) {
                continue;
            }
            let listing = format::ref_stitch_hunks(&pre_view, *id);
            let chain: BTreeSet<u32> = listing.iter().map(|(d, _, _)| *d).chain(std::iter::once(*id)).collect();
            // damage to a head or tail of a band in the stitch chain changes what is stitched:
            // only no-panic/no-hang is demanded of this band
            if matches!(class, "head" | "tail") && damaged_band.map(|b| chain.contains(&b)).unwrap_or(false) {
                continue;
            }
            if !before.ok {
                continue;
            }
            // A hunk that still decodes after the damage, to DIFFERENT entries, can move the
            // resume point of the stitching (its last path) or introduce other paths: what the
            // bands stitched onto it list is then legitimately different, and nothing in the
            // format lets a reader notice. Only no-panic/no-hang is demanded of those bands.
            if class == "hunk" {
                let dband = damaged_band.unwrap_or(u32::MAX);
                let still_decodes = post_view
                    .bands
                    .get(&dband)
                    .map(|b| b.hunk_paths.iter().any(|(n, p)| *p == path && matches!(b.hunks.get(n), Some(FileView::Ok(_)))))
                    .unwrap_or(false);
                if still_decodes && chain.contains(&dband) {
                    acc.hit("hunk_decodable_but_different");
                    continue;
                }
            }
            for (donor, hunk_no, e) in &listing {
                if e.kind != "File" {
                    continue;
                }
                let hunk_path = pre_view.bands[donor].hunk_paths.get(hunk_no).cloned().unwrap_or_default();
                let block_paths: Vec<String> = e.addrs.iter().map(|a| format::block_path(&a.hash)).collect();
                let touches_hunk = path == hunk_path;
                let touches_block = block_paths.contains(&path);
                let Some(exp) = before.snap.get(&e.apath) else { continue };
                let got = after.snap.get(&e.apath);
                let same = got.map(|g| g == exp).unwrap_or(false);
                if !touches_hunk && !touches_block {
                    acc.hit("clean_file_checked");
                    if !same {
                        // was the entry of one of its parent directories in the damaged hunk?
                        let parent_lost = class == "hunk"
                            && listing.iter().any(|(d2, h2, e2)| {
                                e2.kind == "Dir"
                                    && e2.apath != "/"
                                    && format::ref_is_ancestor_or_self(&e2.apath, &e.apath)
                                    && pre_view.bands[d2].hunk_paths.get(h2).map(|p| *p == path).unwrap_or(false)
                            });
                        let disc = match got {
                            None if parent_lost => "clean_file_missing_parent_dir_entry_lost".to_string(),
                            None => "clean_file_missing".to_string(),
                            Some(g) if g.data != exp.data => "clean_file_other_bytes".to_string(),
                            Some(_) => "clean_file_other_metadata".to_string(),
                        };
                        out.push(Violation::new(
                            prop,
                            "untouched_file_restores_exactly",
                            format!("{class}:{disc}"),
                            format!("{what}: b{id:04} {:?} (hunk and blocks untouched) no longer restores as before", e.apath),
                        ));
                    }
                    continue;
                }
                // broken or unconstrained
                let state_broken = if touches_hunk {
                    let num = *hunk_no;
                    !matches!(post_view.bands.get(donor).and_then(|b| b.hunks.get(&num)), Some(FileView::Ok(_)))
                } else {
                    e.addrs.iter().any(|a| {
                        format::block_path(&a.hash) == path
                            && match post_view.blocks.get(&a.hash) {
                                Some((_, BlockView::Ok { data })) => format::blake2b_hex(data) != a.hash,
                                _ => true,
                            }
                    })
                };
                if !state_broken {
                    continue; // decodable but different: unconstrained
                }
                if same {
                    continue; // damage was immaterial for this file
                }
                let names_it = after.errors.iter().any(|er| er.text.contains(&format!("\"{}\"", e.apath)) || er.text.contains(&format!("{} ", e.apath)) || er.text.contains(&format!("{}:", e.apath)));
                let band_level = after.errors.iter().any(|er| !FILE_LEVEL_ERRORS.contains(&er.variant.as_str()));
                if names_it || band_level {
                    acc.hit("broken_file_reported");
                    continue;
                }
                let disc = match got {
                    None => "silently_dropped",
                    Some(g) if g.data != exp.data => "silently_altered",
                    Some(_) => "silently_other_metadata",
                };
                // does the format give a reader any way to notice that this hunk is gone?
                let hunk_detail = if touches_hunk && kind == DamageKind::Delete {
                    let bv = &pre_view.bands[donor];
                    let last = bv.hunks.keys().next_back() == Some(hunk_no);
                    if bv.is_closed() {
                        "[complete_band]"
                    } else if last {
                        "[incomplete_band,last_hunk]"
                    } else {
                        "[incomplete_band,inner_hunk]"
                    }
                } else {
                    ""
                };
                out.push(Violation::new(
                    prop,
                    "broken_file_is_reported",
                    format!("{class}{hunk_detail}:{kind:?}:{disc}"),
                    format!(
                        "{what}: b{id:04} {:?} lost its {} but the restore reported only {:?}",
                        e.apath,
                        if touches_hunk { "index hunk" } else { "block" },
                        after.errors.iter().map(|e| e.variant.clone()).collect::<Vec<_>>()
                    ),
                ));
            }
        }
        // validate, both ways
        for quick in [false, true] {
            let v = dw.validate(quick);
            acc.calls += 1;
            acc.ops += v.call.ops as u64;
            match &v.outcome {
                Outcome::Panicked(p) => crashy("validate_no_panic", panic_disc(p), format!("validate(quick={quick}) panicked at {}:{}: {}", p.file, p.line, p.msg), &mut out),
                Outcome::Hung => crashy("validate_terminates", "hung".into(), format!("validate(quick={quick}) exhausted the operation budget"), &mut out),
                _ => {}
            }
        }
        // a new backup and a restore of it
        let b = dw.backup(&last_opts, FaultPlan::none(), false);
        acc.calls += 1;
        acc.ops += b.call.ops as u64;
        match &b.outcome {
            Outcome::Panicked(p) => crashy("backup_no_panic", panic_disc(p), format!("backup after damage panicked at {}:{}: {}", p.file, p.line, p.msg), &mut out),
            Outcome::Hung => crashy("backup_terminates", "hung".into(), "backup after damage exhausted the operation budget".into(), &mut out),
            Outcome::Done(Ok(stats)) => {
                if stats.replaced_damaged_blocks > 0 {
                    acc.hit("damaged_block_restored_path");
                }
            }
            _ => {}
        }
        if matches!(kind, DamageKind::Delete | DamageKind::TruncateZero) {
            acc.hit("followup_backup_after_missing_file");
            match (&b.outcome, b.new_band) {
                (Outcome::Done(Ok(_)), Some(nb)) if dw.versions[&nb].state == VState::Complete => {
                    let snap = dw.snap.clone();
                    for mut v in expect_restore_equals(&mut dw, acc, prop, Some(nb), &snap, last_opts.owner, &format!("{what}: new backup b{nb:04}")) {
                        v.oracle = format!("backup_after_missing_file_{}", v.oracle);
                        v.disc = format!("{class}:{}", v.disc);
                        out.push(v);
                    }
                }
                (other, _) => out.push(Violation::new(
                    prop,
                    "backup_after_missing_file_completes",
                    format!("{class}:{kind:?}:{}", outcome_disc(other)),
                    format!("{what}: a new backup of the source gave: {}", outcome_text(other)),
                )),
            }
        } else if let (Outcome::Done(Ok(_)), Some(nb)) = (&b.outcome, b.new_band) {
            // whatever the damage, restoring the new band must not panic or hang
            let r = dw.restore(&crate::world::RestoreSpec { band: Some(nb), ..Default::default() });
            acc.calls += 1;
            match &r.outcome {
                Outcome::Panicked(p) => crashy("restore_no_panic", panic_disc(p), format!("restore of the new band panicked at {}:{}: {}", p.file, p.line, p.msg), &mut out),
                Outcome::Hung => crashy("restore_terminates", "hung".into(), "restore of the new band exhausted the operation budget".into(), &mut out),
                _ => {}
            }
        }
        if !out.is_empty() {
            let mut fsc = sc.clone();
            fsc.steps.retain(|s| !matches!(s, Step::Damage { .. }));
            fsc.steps.push(Step::Damage { path: path.clone(), kind: kind.clone(), arg });
            fsc.params = json!({"enumerate": false});
            let mut seen = BTreeSet::new();
            out.retain(|v| seen.insert(v.signature()));
            founds_v.extend(founds(&fsc, out));
        }
        let _: BTreeMap<u32, u32> = BTreeMap::new();
        let _ = Rng::new(0);
    }
    Ok(founds_v)
}
