//! simcheck — deterministic simulation of Conserve with fault injection.
//!
//!   simcheck <Cxx> [--tier quick|thorough] [--runs N] [--workers W]
//!   simcheck replay <file>
//!   simcheck selftest determinism [--runs N]
//!   simcheck list
//!
//! Exit status: 0 held (possibly with KNOWN-FINDING lines), 1 VIOLATION printed,
//! 2 harness error.

mod checks;
mod conform;
mod format;
mod genr;
mod glob;
mod minimise;
mod report;
mod rng;
mod scenario;
mod sim;
mod store;
mod tree;
mod world;

use std::collections::{BTreeMap, BTreeSet};
use std::path::{Path, PathBuf};
use std::sync::Mutex;
use std::sync::atomic::{AtomicU64, Ordering::SeqCst};
use std::time::{Duration, Instant};

use checks::{CheckDef, Tier};
use report::{Acc, Found};
use scenario::Scenario;

fn verif_dir() -> PathBuf {
    if let Ok(d) = std::env::var("VERIF_DIR") {
        return PathBuf::from(d);
    }
    // the binary lives in <verif>/sim/target/release/
    let exe = std::env::current_exe().unwrap_or_default();
    for anc in exe.ancestors() {
        if anc.join("MANIFEST.json").exists() && anc.join("sim").is_dir() {
            return anc.to_owned();
        }
    }
    PathBuf::from("/verif")
}

fn env_u64(name: &str) -> Option<u64> {
    std::env::var(name).ok().and_then(|s| s.trim().parse().ok())
}

struct Args {
    tier: Tier,
    runs: Option<u64>,
    workers: usize,
}

fn parse_args(rest: &[String]) -> Args {
    let mut tier = Tier::Quick;
    let mut runs = env_u64("VERIF_RUNS");
    let mut workers = env_u64("VERIF_WORKERS").map(|w| w as usize).unwrap_or_else(|| {
        std::thread::available_parallelism().map(|n| n.get()).unwrap_or(4)
    });
    let mut i = 0;
    while i < rest.len() {
        match rest[i].as_str() {
            "--tier" => {
                i += 1;
                tier = if rest.get(i).map(|s| s.as_str()) == Some("thorough") { Tier::Thorough } else { Tier::Quick };
            }
            "quick" => tier = Tier::Quick,
            "thorough" => tier = Tier::Thorough,
            "--runs" => {
                i += 1;
                runs = rest.get(i).and_then(|s| s.parse().ok());
            }
            "--workers" => {
                i += 1;
                workers = rest.get(i).and_then(|s| s.parse().ok()).unwrap_or(workers);
            }
            _ => {}
        }
        i += 1;
    }
    if let Ok(t) = std::env::var("VERIF_TIER") {
        match t.as_str() {
            "thorough" => tier = Tier::Thorough,
            "quick" => tier = Tier::Quick,
            _ => {}
        }
    }
    Args { tier, runs, workers: workers.max(1) }
}

fn run_seed(base: u64, check: &str, i: u64) -> u64 {
    rng::mix(&[base, rng::hash_str(check), i])
}

/// Run `n` seeded runs of a check on `workers` threads. Results do not depend on `workers`.
fn run_many(def: &CheckDef, base_seed: u64, n: u64, tier: Tier, workers: usize) -> (Acc, Vec<(u64, Found)>) {
    let next = AtomicU64::new(0);
    let results: Mutex<Vec<(u64, Found)>> = Mutex::new(Vec::new());
    let total = Mutex::new(Acc::default());
    std::thread::scope(|s| {
        for _ in 0..workers {
            s.spawn(|| {
                let mut acc = Acc::default();
                loop {
                    let i = next.fetch_add(1, SeqCst);
                    if i >= n {
                        break;
                    }
                    if let Some(only) = env_u64("VERIF_ONLY_RUN") {
                        if i != only {
                            continue;
                        }
                    }
                    let seed = run_seed(base_seed, def.info.id, i);
                    let ops_before = acc.ops;
                    let r = std::panic::catch_unwind(std::panic::AssertUnwindSafe(|| (def.run)(seed, tier, &mut acc)));
                    if std::env::var_os("VERIF_TRACE_RUNS").is_some() {
                        eprintln!("run {i} seed {seed} ops {}", acc.ops - ops_before);
                    }
                    match r {
                        Ok(fs) => {
                            if !fs.is_empty() {
                                let mut g = results.lock().unwrap();
                                for f in fs {
                                    g.push((i, f));
                                }
                            }
                        }
                        Err(_) => acc.harness_errors.push(format!("{} run {i} (seed {seed}): harness panic", def.info.id)),
                    }
                }
                total.lock().unwrap().merge(acc);
            });
        }
    });
    let mut res = results.into_inner().unwrap();
    res.sort_by(|a, b| a.0.cmp(&b.0).then(a.1.violation.signature().cmp(&b.1.violation.signature())));
    (total.into_inner().unwrap(), res)
}

fn write_replay(dir: &Path, def: &CheckDef, base_seed: u64, n: usize, sc: &Scenario, v: &report::Violation, log_tail: &[String]) -> std::io::Result<PathBuf> {
    std::fs::create_dir_all(dir)?;
    let p = dir.join(format!("{}-{}-{}.json", def.info.id, base_seed, n));
    let doc = serde_json::json!({
        "property": def.info.id,
        "signature": v.signature(),
        "oracle": v.oracle,
        "detail": v.detail,
        "scenario": sc,
        "operation_log_tail": log_tail,
    });
    std::fs::write(&p, serde_json::to_vec_pretty(&doc).unwrap())?;
    Ok(p)
}

fn replay_file(path: &Path, quiet: bool) -> i32 {
    let text = match std::fs::read_to_string(path) {
        Ok(t) => t,
        Err(e) => {
            eprintln!("harness error: cannot read {path:?}: {e}");
            return 2;
        }
    };
    let doc: serde_json::Value = match serde_json::from_str(&text) {
        Ok(d) => d,
        Err(e) => {
            eprintln!("harness error: {path:?} is not JSON: {e}");
            return 2;
        }
    };
    let sc: Scenario = match serde_json::from_value(doc["scenario"].clone()) {
        Ok(s) => s,
        Err(e) => {
            eprintln!("harness error: scenario in {path:?} does not parse: {e}");
            return 2;
        }
    };
    let Some(def) = checks::find(&sc.check) else {
        eprintln!("harness error: unknown check {}", sc.check);
        return 2;
    };
    let want = doc["signature"].as_str().unwrap_or("").to_string();
    let mut acc = Acc::default();
    let mut last = (def.execute)(&sc, &mut acc);
    if def.replay_attempts() > 1 && !matches!(&last, Ok(vs) if vs.iter().any(|v| v.signature() == want)) {
        // see minimise::still_fails: several executions at once
        if minimise::still_fails(def.execute, &sc, &want, def.replay_attempts()) {
            last = Ok(vec![report::Violation::new(def.info.id, want.split('/').nth(1).unwrap_or(""), want.splitn(3, '/').nth(2).unwrap_or(""), "reproduced in one of several concurrent executions")]);
        }
    }
    match last {
        Err(e) => {
            eprintln!("harness error during replay: {e}");
            2
        }
        Ok(vs) => {
            let mut hit = false;
            for v in &vs {
                if !quiet {
                    println!("replayed: {} -- {}", v.signature(), v.detail);
                }
                if v.signature() == want {
                    hit = true;
                }
            }
            if hit {
                if !quiet {
                    println!("VIOLATION property={} replay={}", def.info.id, path.display());
                }
                1
            } else {
                if !quiet {
                    println!("replay of {} did not reproduce signature {want}", path.display());
                }
                0
            }
        }
    }
}

fn run_check(def: &CheckDef, args: &Args) -> i32 {
    let base_seed = env_u64("VERIF_SEED").unwrap_or(1);
    let vdir = verif_dir();
    let n = args.runs.unwrap_or_else(|| (def.runs)(args.tier));
    let known = match report::load_known_findings(&vdir.join("known_findings.json")) {
        Ok(k) => k,
        Err(e) => {
            eprintln!("harness error: {e}");
            return 2;
        }
    };
    let start = Instant::now();
    println!(
        "simcheck {} tier={} VERIF_SEED={} runs={} workers={}",
        def.info.id,
        args.tier.name(),
        base_seed,
        n,
        args.workers
    );
    let (acc, found) = run_many(def, base_seed, n, args.tier, args.workers);
    let wall = start.elapsed().as_secs_f64();
    // taken before any minimisation (whose extent depends on a wall-clock budget)
    let digest = (sim::GLOBAL_WORLDS.load(SeqCst), sim::GLOBAL_LOG_DIGEST.load(SeqCst));

    // group by signature, first occurrence (lowest run index) wins
    let mut by_sig: BTreeMap<String, (u64, Found, usize)> = BTreeMap::new();
    for (i, f) in found {
        let sig = f.violation.signature();
        by_sig.entry(sig).and_modify(|e| e.2 += 1).or_insert((i, f, 1));
    }
    let mut exit = 0;
    let mut known_seen: BTreeSet<String> = BTreeSet::new();
    let mut new_violations = 0usize;
    let mut reported = 0usize;
    for (sig, (i, f, count)) in &by_sig {
        if let Some(k) = known.iter().find(|k| k.signature == *sig) {
            println!("KNOWN-FINDING: property={} {} [{} occurrence(s), first at run {}] {}", k.property, k.signature, count, i, k.description);
            known_seen.insert(sig.clone());
            continue;
        }
        new_violations += 1;
        if reported >= 8 {
            continue;
        }
        reported += 1;
        let sc: Scenario = match serde_json::from_value(f.scenario.clone()) {
            Ok(s) => s,
            Err(e) => {
                eprintln!("harness error: scenario of {sig} does not round-trip: {e}");
                exit = 2;
                continue;
            }
        };
        // the violation must reproduce from its explicit scenario before anything is claimed
        let reproduces = minimise::still_fails(def.execute, &sc, sig, def.replay_attempts());
        if !reproduces {
            eprintln!("harness error: {sig} (run {i}) did not reproduce from its explicit scenario: not reported as a violation");
            exit = exit.max(2);
            continue;
        }
        let (min_sc, tried) = minimise::minimise(def.execute, &sc, sig, Duration::from_secs(20), def.replay_attempts());
        let mut a3 = Acc::default();
        sim::LOG_CAPTURE.with(|c| *c.borrow_mut() = Some(Vec::new()));
        let detail = match (def.execute)(&min_sc, &mut a3) {
            Ok(vs) => vs.into_iter().find(|v| v.signature() == *sig).unwrap_or(f.violation.clone()),
            Err(_) => f.violation.clone(),
        };
        let captured = sim::LOG_CAPTURE.with(|c| c.borrow_mut().take()).unwrap_or_default();
        let tail: Vec<String> = captured.iter().rev().take(120).rev().cloned().collect();
        let path = match write_replay(&vdir.join("replays"), def, base_seed, reported, &min_sc, &detail, &tail) {
            Ok(p) => p,
            Err(e) => {
                eprintln!("harness error: cannot write replay file: {e}");
                exit = 2;
                continue;
            }
        };
        // fresh-process confirmation
        let confirmed = std::process::Command::new(std::env::current_exe().unwrap())
            .arg("replay")
            .arg(&path)
            .arg("--quiet")
            .env("VERIF_DIR", &vdir)
            .status()
            .map(|s| s.code() == Some(1))
            .unwrap_or(false);
        if !confirmed {
            eprintln!("harness error: replay file {} did not reproduce in a fresh process", path.display());
            exit = exit.max(2);
            continue;
        }
        println!("  violation {sig}: {} ({} occurrence(s), first at run {i}; minimised with {tried} trials)", detail.detail, count);
        println!("VIOLATION property={} replay={}", def.info.id, path.display());
        if exit == 0 {
            exit = 1;
        }
    }
    if new_violations > reported {
        println!("  ... and {} more distinct violation signatures not minimised", new_violations - reported);
    }
    for e in acc.harness_errors.iter().take(5) {
        eprintln!("harness error: {e}");
    }
    if !acc.harness_errors.is_empty() {
        exit = 2;
    }
    let stuck: Vec<String> = def
        .expected_probes
        .iter()
        .filter(|p| acc.reach.get(**p).copied().unwrap_or(0) == 0)
        .map(|s| s.to_string())
        .collect();
    if !stuck.is_empty() {
        println!("  note: probes never hit in this run: {stuck:?}");
    }
    if let Err(e) = report::write_evidence(&vdir.join("evidence"), &def.info, args.tier.name(), base_seed, &acc, wall, new_violations, &known_seen, &stuck) {
        eprintln!("harness error: cannot write evidence: {e}");
        exit = 2;
    }
    println!(
        "  {} runs, {} evaluations, {} distinct non-trivial, {} simulated calls, {} storage ops, {} states, faults {:?}, {:.1}s",
        acc.runs,
        acc.evaluations,
        acc.nontrivial.len(),
        acc.calls,
        acc.ops,
        acc.states.len(),
        acc.faults,
        wall
    );
    println!("  determinism digest: worlds={} oplog_xor={:016x}", digest.0, digest.1);
    if exit == 0 {
        println!("OK property={} held on everything explored", def.info.id);
    }
    exit
}

fn main() {
    unsafe {
        libc::umask(0);
    }
    sim::install_panic_hook();
    let argv: Vec<String> = std::env::args().skip(1).collect();
    if argv.is_empty() {
        eprintln!("usage: simcheck <Cxx>|replay <file>|selftest determinism|list [--tier quick|thorough]");
        std::process::exit(2);
    }
    let code = match argv[0].as_str() {
        "list" => {
            for c in checks::all() {
                println!("{} {}", c.info.id, c.info.level);
            }
            0
        }
        "replay" => {
            let quiet = argv.iter().any(|a| a == "--quiet");
            match argv.get(1) {
                Some(p) => replay_file(Path::new(p), quiet),
                None => 2,
            }
        }
        "selftest" => selftest(&argv[1..]),
        id => match checks::find(id) {
            Some(def) => run_check(&def, &parse_args(&argv[1..])),
            None => {
                eprintln!("harness error: unknown check {id}");
                2
            }
        },
    };
    let _ = std::fs::remove_dir_all(world::scratch_base());
    std::process::exit(code);
}

/// Determinism proof: every seed executed twice (here: in this process, on different worker
/// threads; `bin/selftest` additionally compares across processes and worker counts) must give
/// identical operation logs, final stores and verdicts.
fn selftest(rest: &[String]) -> i32 {
    let args = parse_args(rest);
    let n = args.runs.unwrap_or(200);
    let base_seed = env_u64("VERIF_SEED").unwrap_or(1);
    let mut bad = 0;
    for def in checks::all() {
        let (a1, f1) = run_many(&def, base_seed, n, args.tier, args.workers);
        let (a2, f2) = run_many(&def, base_seed, n, args.tier, 1.max(args.workers / 3));
        let s1: Vec<String> = f1.iter().map(|(i, f)| format!("{i}:{}", f.violation.signature())).collect();
        let s2: Vec<String> = f2.iter().map(|(i, f)| format!("{i}:{}", f.violation.signature())).collect();
        let same = s1 == s2 && a1.ops == a2.ops && a1.states == a2.states && a1.traces == a2.traces && a1.evaluations == a2.evaluations;
        println!(
            "selftest determinism {}: runs={} ops={}/{} states={}/{} verdicts={}/{} -> {}",
            def.info.id,
            n,
            a1.ops,
            a2.ops,
            a1.states.len(),
            a2.states.len(),
            s1.len(),
            s2.len(),
            if same { "identical" } else { "DIFFERENT" }
        );
        if !same {
            bad += 1;
        }
    }
    if bad > 0 { 2 } else { 0 }
}
