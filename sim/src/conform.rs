//! Format-conformance oracle (C13) over the independent decoder's view, plus the
//! reference-integrity scan used by C03/C04/C05/C06.

use std::collections::{BTreeMap, BTreeSet};

use crate::format::{ArchiveView, BlockView, FileView, blake2b_hex, first_order_violation, ref_valid};
use crate::report::Violation;
use crate::tree::Snap;

pub struct ConformOpts {
    /// zero-length files may exist (a crash variant that leaves them was injected)
    pub allow_empty_leftovers: bool,
    /// snapshot per band id, to check recorded sizes against the source
    pub snaps: BTreeMap<u32, std::sync::Arc<Snap>>,
}

pub fn check_conformance(prop: &str, v: &ArchiveView, o: &ConformOpts) -> Vec<Violation> {
    let mut out = Vec::new();
    let mut viol = |oracle: &str, disc: String, detail: String| {
        out.push(Violation::new(prop, oracle, disc, detail));
    };
    match &v.header {
        FileView::Ok(h) => {
            if h.get("conserve_archive_version").and_then(|x| x.as_str()) != Some("0.6") {
                viol("format_header", "version".into(), format!("CONSERVE header says {h}"));
            }
        }
        other => viol("format_header", "unreadable".into(), format!("CONSERVE header is {other:?}")),
    }
    if let Some(l) = &v.gc_lock {
        match serde_json::from_slice::<serde_json::Value>(l) {
            Ok(serde_json::Value::Object(m)) if m.is_empty() => {}
            _ => viol("format_gc_lock", "content".into(), format!("GC_LOCK holds {:?}", String::from_utf8_lossy(l))),
        }
    }
    for s in &v.strays {
        viol("format_stray_file", "archive_dir".into(), format!("unexpected entry {s}"));
    }
    for (id, b) in &v.bands {
        for s in &b.strays {
            viol("format_stray_file", "band_dir".into(), format!("unexpected entry {s}"));
        }
        match &b.head {
            FileView::Ok(_) | FileView::Absent => {}
            FileView::Empty if o.allow_empty_leftovers => {}
            other => viol("format_band_head", "unreadable".into(), format!("b{id:04} BANDHEAD is {other:?}")),
        }
        // hunks numbered consecutively from zero
        let nums: Vec<u32> = b.hunks.keys().copied().collect();
        for (i, n) in nums.iter().enumerate() {
            if *n != i as u32 {
                viol(
                    "format_hunk_numbering",
                    "gap".into(),
                    format!("b{id:04}: hunk numbers are {nums:?}"),
                );
                break;
            }
        }
        let mut all_paths: Vec<String> = Vec::new();
        for (n, h) in &b.hunks {
            match h {
                FileView::Ok(es) => {
                    if es.is_empty() {
                        viol("format_hunk_nonempty", "empty_list".into(), format!("b{id:04} hunk {n} holds an empty list"));
                    }
                    for e in es {
                        if !ref_valid(&e.apath) {
                            viol("format_apath_valid", "invalid".into(), format!("b{id:04} hunk {n}: invalid apath {:?}", e.apath));
                        }
                        match e.kind.as_str() {
                            "File" | "Dir" | "Symlink" => {}
                            k => viol("format_kind", k.to_string(), format!("b{id:04} {:?} has kind {k}", e.apath)),
                        }
                        if e.kind != "File" && !e.addrs.is_empty() {
                            viol("format_addrs_only_on_files", e.kind.clone(), format!("b{id:04} {:?} ({}) carries addresses", e.apath, e.kind));
                        }
                        if (e.kind == "Symlink") != e.target.is_some() {
                            viol(
                                "format_target_only_on_symlinks",
                                e.kind.clone(),
                                format!("b{id:04} {:?} kind {} target {:?}", e.apath, e.kind, e.target),
                            );
                        }
                        if e.mtime_nanos >= 1_000_000_000 {
                            viol("format_mtime_nanos", "range".into(), format!("b{id:04} {:?} mtime_nanos {}", e.apath, e.mtime_nanos));
                        }
                        if let Some(m) = e.unix_mode {
                            if m > 0o7777 {
                                viol("format_unix_mode", "range".into(), format!("b{id:04} {:?} unix_mode {m:o}", e.apath));
                            }
                        }
                        if e.kind == "File" {
                            if let Some(snap) = o.snaps.get(id) {
                                if let Some(sn) = snap.get(&e.apath) {
                                    if sn.kind == 'f' && sn.data.len() as u64 != e.size() {
                                        viol(
                                            "format_lengths_sum_to_size",
                                            "size".into(),
                                            format!("b{id:04} {:?}: addrs sum to {} but the file had {} bytes", e.apath, e.size(), sn.data.len()),
                                        );
                                    }
                                }
                            }
                        }
                        for a in &e.addrs {
                            match v.blocks.get(&a.hash) {
                                Some((_, BlockView::Ok { data })) => {
                                    if a.start + a.len > data.len() as u64 {
                                        viol(
                                            "format_address_inside_block",
                                            "past_end".into(),
                                            format!("b{id:04} {:?}: address {}+{} past block end {}", e.apath, a.start, a.len, data.len()),
                                        );
                                    }
                                    if a.len == 0 {
                                        viol("format_address_inside_block", "zero_len".into(), format!("b{id:04} {:?}: zero-length address", e.apath));
                                    }
                                }
                                Some((_, other)) => viol(
                                    "format_address_inside_block",
                                    "block_unreadable".into(),
                                    format!("b{id:04} {:?}: block {} is {other:?}", e.apath, &a.hash[..12.min(a.hash.len())]),
                                ),
                                None => viol(
                                    "format_address_inside_block",
                                    "block_missing".into(),
                                    format!("b{id:04} {:?}: block {} missing", e.apath, &a.hash[..12.min(a.hash.len())]),
                                ),
                            }
                        }
                        all_paths.push(e.apath.clone());
                    }
                }
                FileView::Empty if o.allow_empty_leftovers => {}
                FileView::Empty => viol("format_hunk_nonempty", "zero_length_file".into(), format!("b{id:04} hunk {n} is a zero-length file")),
                FileView::Bad(m) => viol("format_hunk_decodes", "undecodable".into(), format!("b{id:04} hunk {n}: {m}")),
                FileView::Absent => {}
            }
        }
        if let Some((a, bb)) = first_order_violation(all_paths.iter().map(|s| s.as_str())) {
            viol(
                "format_entries_strictly_increasing",
                if a == bb { "duplicate".into() } else { "out_of_order".into() },
                format!("b{id:04}: {a:?} is followed by {bb:?}"),
            );
        }
        match &b.tail {
            FileView::Ok(t) => {
                let n = t.get("index_hunk_count").and_then(|x| x.as_u64());
                if n != Some(b.hunks.len() as u64) {
                    viol(
                        "format_tail_hunk_count",
                        "mismatch".into(),
                        format!("b{id:04}: tail says {n:?} hunks, {} present", b.hunks.len()),
                    );
                }
                if !b.head.exists() {
                    viol("format_band_head", "tail_without_head".into(), format!("b{id:04} has a tail but no head"));
                }
            }
            FileView::Absent => {}
            FileView::Empty if o.allow_empty_leftovers => {}
            other => viol("format_band_tail", "unreadable".into(), format!("b{id:04} BANDTAIL is {other:?}")),
        }
    }
    for (name, (dir, bv)) in &v.blocks {
        if name.len() != 128 || !name.bytes().all(|c| c.is_ascii_hexdigit() && !c.is_ascii_uppercase()) {
            viol("format_block_name", "not_a_hash".into(), format!("d/{dir}/{name}"));
            continue;
        }
        if dir.as_str() != &name[..3] {
            viol("format_block_placement", "wrong_subdir".into(), format!("block {}.. lives in d/{dir}", &name[..12]));
        }
        match bv {
            BlockView::Ok { data } => {
                if blake2b_hex(data) != *name {
                    viol("format_block_hash", "mismatch".into(), format!("block {}.. does not hash to its name", &name[..12]));
                }
                if data.is_empty() {
                    viol("format_block_hash", "empty_plaintext".into(), format!("block {}.. has empty content", &name[..12]));
                }
            }
            BlockView::Empty if o.allow_empty_leftovers => {}
            BlockView::Empty => viol("format_block_decodes", "zero_length_file".into(), format!("block {}..", &name[..12])),
            BlockView::Bad(m) => viol("format_block_decodes", "undecodable".into(), format!("block {}..: {m}", &name[..12])),
        }
    }
    out
}

/// Every (hash, start, len) recorded by any decodable hunk of any band must lie inside an
/// existing, non-empty, correctly hashing block. Returns one line per offending entry.
pub fn dangling_references(v: &ArchiveView) -> Vec<(u32, String, String)> {
    let mut out = Vec::new();
    for (id, b) in &v.bands {
        for e in b.own_entries() {
            for a in &e.addrs {
                let ok = match v.blocks.get(&a.hash) {
                    Some((_, BlockView::Ok { data })) => {
                        a.start + a.len <= data.len() as u64 && blake2b_hex(data) == a.hash
                    }
                    _ => false,
                };
                if !ok {
                    let why = match v.blocks.get(&a.hash) {
                        None => "missing",
                        Some((_, BlockView::Empty)) => "empty",
                        Some((_, BlockView::Bad(_))) => "undecodable",
                        Some((_, BlockView::Ok { .. })) => "short_or_corrupt",
                    };
                    out.push((*id, e.apath.clone(), why.to_string()));
                }
            }
        }
    }
    out
}

pub fn referenced_hashes(v: &ArchiveView, bands: impl Iterator<Item = u32>) -> BTreeSet<String> {
    let mut s = BTreeSet::new();
    for id in bands {
        if let Some(b) = v.bands.get(&id) {
            for e in b.own_entries() {
                for a in e.addrs {
                    s.insert(a.hash);
                }
            }
        }
    }
    s
}
