//! The simulator core: the interceptor that sits behind every `Transport` operation of
//! every simulated Conserve invocation ("actor"), the operation log, fault plans, crash
//! by cancellation, the gate that lets a scheduler release one actor at a time, and the
//! runner that executes one Conserve call as one actor.

use std::collections::BTreeMap;
use std::future::Future;
use std::path::{Path, PathBuf};
use std::sync::atomic::{AtomicBool, AtomicU32, Ordering::SeqCst};
use std::sync::{Arc, Condvar, Mutex};

use async_trait::async_trait;
use bytes::Bytes;
use conserve::transport::verif::{Backend, LocalBackend, Op, Reply};
use conserve::transport::{Error as TErr, ErrorKind, Transport, WriteMode};

use crate::rng::{self, Rng};
use crate::store::{self, ListOrder, MemStore, Node, terr};

// ---------------------------------------------------------------------------------------
// Fault plans

#[derive(Debug, Clone, Copy, PartialEq, Eq, serde::Serialize, serde::Deserialize)]
pub enum EKind {
    NotFound,
    AlreadyExists,
    PermissionDenied,
    Other,
}

impl EKind {
    pub const ALL: [EKind; 4] = [
        EKind::NotFound,
        EKind::AlreadyExists,
        EKind::PermissionDenied,
        EKind::Other,
    ];
    pub fn to_kind(self) -> ErrorKind {
        match self {
            EKind::NotFound => ErrorKind::NotFound,
            EKind::AlreadyExists => ErrorKind::AlreadyExists,
            EKind::PermissionDenied => ErrorKind::PermissionDenied,
            EKind::Other => ErrorKind::Other,
        }
    }
}

#[derive(Debug, Clone, Copy, PartialEq, Eq, serde::Serialize, serde::Deserialize)]
pub enum Fault {
    /// The process dies before this operation takes effect.
    CrashBefore,
    /// (writes) the process dies after the file was created but before any content was
    /// written; for other operations the same as `CrashBefore`.
    CrashEmpty,
    /// The operation returns this error and has no effect.
    Fail(EKind),
}

#[derive(Debug, Clone, Default, PartialEq, serde::Serialize, serde::Deserialize)]
pub struct FaultPlan {
    /// Faults by index in this call's own operation trace.
    #[serde(default, skip_serializing_if = "BTreeMap::is_empty")]
    pub at: BTreeMap<u32, Fault>,
    /// Every operation fails independently with probability per_mille/1000 (seed, per_mille).
    #[serde(default, skip_serializing_if = "Option::is_none")]
    pub fail_each: Option<(u64, u32)>,
    /// Seeded delays: each operation yields 0..=3 extra times with probability per_mille/1000.
    #[serde(default, skip_serializing_if = "Option::is_none")]
    pub delay: Option<(u64, u32)>,
    /// Crash before the first operation with this verb whose path starts with this prefix
    /// (or, if the pattern starts with '*', contains the rest of it). Used by generators
    /// that cannot know operation indexes in advance.
    #[serde(default, skip_serializing_if = "Option::is_none")]
    pub crash_on: Option<(String, String)>,
    /// With `crash_on`: let this many matching operations pass first.
    #[serde(default, skip_serializing_if = "is_zero_u32")]
    pub crash_on_skip: u32,
    /// Crash AFTER the first operation matching (verb, pattern as in `crash_on`) has been
    /// performed: before the operation that follows it, or `crash_after_ops` operations later.
    #[serde(default, skip_serializing_if = "Option::is_none")]
    pub crash_after: Option<(String, String)>,
    #[serde(default, skip_serializing_if = "is_zero_u32")]
    pub crash_after_ops: u32,
    /// With `crash_on` on a write: the file is created (zero-length) before the kill.
    #[serde(default, skip_serializing_if = "is_false")]
    pub crash_on_empty: bool,
}

fn is_false(b: &bool) -> bool {
    !*b
}

fn is_zero_u32(n: &u32) -> bool {
    *n == 0
}

impl FaultPlan {
    pub fn none() -> FaultPlan {
        FaultPlan::default()
    }
    pub fn single(k: u32, f: Fault) -> FaultPlan {
        let mut p = FaultPlan::default();
        p.at.insert(k, f);
        p
    }
    pub fn with_delay(mut self, d: Option<(u64, u32)>) -> FaultPlan {
        self.delay = d;
        self
    }
    pub fn is_faultless(&self) -> bool {
        self.at.is_empty() && self.fail_each.is_none() && self.crash_on.is_none() && self.crash_after.is_none()
    }
}

// ---------------------------------------------------------------------------------------
// Operation log

#[derive(Debug, Clone, Copy, PartialEq, Eq)]
pub enum Pre {
    Absent,
    Dir,
    File(usize),
}

#[derive(Debug, Clone, Copy, PartialEq, Eq)]
pub enum Res {
    Ok,
    /// The store itself refused (real semantics, e.g. NotFound on a missing file).
    Err(ErrorKind),
    /// Injected failure.
    Injected(ErrorKind),
    Crash,
    CrashEmpty,
}

#[derive(Debug, Clone)]
pub struct OpRecord {
    pub seq: u64,
    pub actor: u32,
    /// Index within the actor's current call.
    pub idx: u32,
    pub verb: &'static str,
    pub path: String,
    pub len: usize,
    pub content_hash: u64,
    pub pre: Pre,
    pub res: Res,
    pub delayed: u8,
}

impl OpRecord {
    pub fn line(&self) -> String {
        format!(
            "#{} a{}.{} {} {}{} pre={:?} -> {:?}{}",
            self.seq,
            self.actor,
            self.idx,
            self.verb,
            if self.path.is_empty() { "." } else { &self.path },
            if self.verb == "write" {
                format!(" [{}]", self.len)
            } else {
                String::new()
            },
            self.pre,
            self.res,
            if self.delayed > 0 {
                format!(" delayed={}", self.delayed)
            } else {
                String::new()
            }
        )
    }
    pub fn is_ok_write(&self) -> bool {
        self.verb == "write" && self.res == Res::Ok
    }
    pub fn mutated(&self) -> bool {
        matches!(self.res, Res::Ok | Res::CrashEmpty)
            && matches!(self.verb, "write" | "mkdir" | "rm" | "rmtree")
    }
    /// Hash of the fields that must be identical between two executions of one scenario.
    pub fn stable_hash(&self) -> u64 {
        rng::mix(&[
            self.seq,
            self.actor as u64,
            self.idx as u64,
            rng::hash_str(self.verb),
            rng::hash_str(&self.path),
            self.len as u64,
            if self.path.ends_with("BANDHEAD") || self.path.ends_with("BANDTAIL") {
                0
            } else {
                self.content_hash
            },
            rng::hash_str(&format!("{:?}{:?}{}", self.pre, self.res, self.delayed)),
        ])
    }
}

// ---------------------------------------------------------------------------------------
// Storage backends behind the interceptor

pub enum StoreBackend {
    Mem(MemStore),
    /// The real `transport/local.rs` on a tmpfs directory (needed for C07).
    Local {
        root: PathBuf,
        backend: LocalBackend,
        list_order: ListOrder,
        lists_served: u64,
    },
}

impl StoreBackend {
    pub fn new_local(root: &Path, list_order: ListOrder) -> StoreBackend {
        std::fs::create_dir_all(root).expect("create local store root");
        StoreBackend::Local {
            root: root.to_owned(),
            backend: LocalBackend::new(root),
            list_order,
            lists_served: 0,
        }
    }

    pub fn is_local(&self) -> bool {
        matches!(self, StoreBackend::Local { .. })
    }

    /// A `MemStore` image of the durable state (for decoding, comparing, hashing).
    pub fn snapshot(&self) -> MemStore {
        match self {
            StoreBackend::Mem(m) => m.clone(),
            StoreBackend::Local { root, .. } => {
                let mut m = MemStore::new(ListOrder::Sorted);
                fn rec(m: &mut MemStore, root: &Path, rel: &str) {
                    let dir = if rel.is_empty() {
                        root.to_owned()
                    } else {
                        root.join(rel)
                    };
                    let mut names: Vec<_> = std::fs::read_dir(&dir)
                        .expect("read local store dir")
                        .map(|e| e.unwrap().file_name().to_string_lossy().to_string())
                        .collect();
                    names.sort();
                    for n in names {
                        let r = if rel.is_empty() {
                            n.clone()
                        } else {
                            format!("{rel}/{n}")
                        };
                        let p = root.join(&r);
                        let md = std::fs::symlink_metadata(&p).unwrap();
                        if md.is_dir() {
                            m.nodes.insert(r.clone(), Node::Dir);
                            rec(m, root, &r);
                        } else {
                            m.nodes
                                .insert(r, Node::File(Bytes::from(std::fs::read(&p).unwrap())));
                        }
                    }
                }
                rec(&mut m, root, "");
                m
            }
        }
    }

    fn pre(&self, path: &str) -> Pre {
        match self {
            StoreBackend::Mem(m) => match m.nodes.get(path) {
                None => Pre::Absent,
                Some(Node::Dir) => Pre::Dir,
                Some(Node::File(b)) => Pre::File(b.len()),
            },
            StoreBackend::Local { root, .. } => match std::fs::symlink_metadata(root.join(path)) {
                Err(_) => Pre::Absent,
                Ok(md) if md.is_dir() => Pre::Dir,
                Ok(md) => Pre::File(md.len() as usize),
            },
        }
    }

    fn apply(&mut self, op: &Op) -> Result<Reply, TErr> {
        match self {
            StoreBackend::Mem(m) => m.apply(op),
            StoreBackend::Local {
                backend,
                list_order,
                lists_served,
                ..
            } => {
                // Complete the real tokio::fs future right here, so that operations are
                // strictly sequential on disk whatever tokio's blocking pool does.
                // `unconstrained`: tokio's cooperative budget would otherwise make the fs future
                // return Pending with a wake-up deferred to the scheduler we are blocking.
                let r = park_block_on(tokio::task::unconstrained(backend.call(op.clone())));
                match r {
                    Ok(Reply::List(mut l)) => {
                        l.sort();
                        *lists_served += 1;
                        match *list_order {
                            ListOrder::Sorted => {}
                            ListOrder::Reversed => l.reverse(),
                            ListOrder::Shuffled(seed) => {
                                let mut r = Rng::new(rng::mix(&[
                                    seed,
                                    rng::hash_str(store::op_path(op)),
                                    *lists_served,
                                ]));
                                r.shuffle(&mut l);
                            }
                        }
                        Ok(Reply::List(l))
                    }
                    // Timestamps of the real file system are not under simulator control;
                    // nothing in Conserve reads them, but mask them anyway.
                    Ok(Reply::Metadata(mut md)) => {
                        md.modified = jiff::Timestamp::UNIX_EPOCH;
                        if md.kind == conserve::Kind::Dir {
                            md.len = 0;
                        }
                        Ok(Reply::Metadata(md))
                    }
                    other => other,
                }
            }
        }
    }

    fn crash_empty(&mut self, path: &str, mode: WriteMode) {
        match self {
            StoreBackend::Mem(m) => {
                if path.is_empty() || !m.is_dir(store::parent(path)) {
                    return;
                }
                match m.nodes.get(path) {
                    Some(Node::Dir) => {}
                    Some(Node::File(b)) if mode == WriteMode::CreateNew && !b.is_empty() => {}
                    _ => {
                        m.nodes.insert(path.to_string(), Node::File(Bytes::new()));
                    }
                }
            }
            StoreBackend::Local { root, .. } => {
                let p = root.join(path);
                match std::fs::symlink_metadata(&p) {
                    Ok(md) if md.is_dir() => {}
                    Ok(md) if md.len() > 0 && mode == WriteMode::CreateNew => {}
                    _ => {
                        let _ = std::fs::write(&p, b"");
                    }
                }
            }
        }
    }
}

/// Minimal executor: poll on this thread, park until woken.
pub fn park_block_on<F: Future>(f: F) -> F::Output {
    use std::task::{Context, Poll, Wake, Waker};
    struct ThreadWaker(std::thread::Thread);
    impl Wake for ThreadWaker {
        fn wake(self: Arc<Self>) {
            self.0.unpark();
        }
    }
    let waker = Waker::from(Arc::new(ThreadWaker(std::thread::current())));
    let mut cx = Context::from_waker(&waker);
    let mut f = std::pin::pin!(f);
    loop {
        match f.as_mut().poll(&mut cx) {
            Poll::Ready(v) => return v,
            Poll::Pending => std::thread::park(),
        }
    }
}

// ---------------------------------------------------------------------------------------
// The world-wide simulator core

#[derive(Default)]
pub struct SchedState {
    pub enabled: bool,
    /// actor -> description of the operation it is parked before
    pub parked: BTreeMap<u32, (String, String)>,
    pub finished: Vec<u32>,
    pub released: Option<u32>,
}

#[derive(Default)]
pub struct Sched {
    pub state: Mutex<SchedState>,
    pub cv: Condvar,
}

pub struct SimCore {
    pub store: Mutex<StoreBackend>,
    pub log: Mutex<Vec<OpRecord>>,
    pub sched: Sched,
    /// Storage operations allowed per call before the call is declared hung.
    pub op_budget: AtomicU32,
    /// Simulated wall clock at operation 0 (seconds since the epoch).
    pub clock_base: std::sync::atomic::AtomicI64,
    /// Storage operations per simulated second (1: every operation is a new second; large:
    /// everything a run does happens within one second).
    pub clock_div: std::sync::atomic::AtomicI64,
    /// 0: every simulated process runs on a current-thread tokio runtime (whose task order
    /// the simulator decides through its delay seam). n > 0: a REAL multi-thread runtime with
    /// n workers - scheduling inside it is the operating system's, not the simulator's; only
    /// C17 uses it, as one more replay flavour.
    pub runtime_workers: AtomicU32,
}

/// Order-independent digest of every operation log of this process (XOR of per-world log
/// hashes): two executions of the same batch must print the same value whatever the worker
/// count or thread scheduling was.
pub static GLOBAL_LOG_DIGEST: std::sync::atomic::AtomicU64 = std::sync::atomic::AtomicU64::new(0);
pub static GLOBAL_WORLDS: std::sync::atomic::AtomicU64 = std::sync::atomic::AtomicU64::new(0);

thread_local! {
    /// When set, every world dropped on this thread appends its operation log here
    /// (used to put the tail of the log into replay files).
    pub static LOG_CAPTURE: std::cell::RefCell<Option<Vec<String>>> = const { std::cell::RefCell::new(None) };
}

impl Drop for SimCore {
    fn drop(&mut self) {
        if let Ok(log) = self.log.lock() {
            LOG_CAPTURE.with(|c| {
                if let Some(buf) = c.borrow_mut().as_mut() {
                    buf.push(format!("--- world with {} operations", log.len()));
                    buf.extend(log.iter().map(|r| r.line()));
                }
            });
            let mut h: u64 = 0x5151;
            for r in log.iter() {
                h = rng::mix(&[h, r.stable_hash()]);
            }
            if std::env::var_os("VERIF_DUMP_LOG").is_some() {
                let mut out = String::new();
                for r in log.iter() {
                    out.push_str(&r.line());
                    out.push('\n');
                }
                eprintln!("=== world log hash {h:016x}\n{out}");
            }
            // worlds run on a real multi-thread runtime (C17's flavour F) are outside the
            // simulator's control by design - Conserve lists the block subdirectories
            // concurrently, so the ORDER of those reads is the operating system's - and stay
            // out of the determinism digest
            if self.runtime_workers.load(SeqCst) == 0 {
                GLOBAL_LOG_DIGEST.fetch_xor(h, SeqCst);
            }
            GLOBAL_WORLDS.fetch_add(1, SeqCst);
        }
    }
}

impl SimCore {
    pub fn new(store: StoreBackend) -> Arc<SimCore> {
        Arc::new(SimCore {
            store: Mutex::new(store),
            log: Mutex::new(Vec::new()),
            sched: Sched::default(),
            op_budget: AtomicU32::new(200_000),
            clock_base: std::sync::atomic::AtomicI64::new(SIM_EPOCH),
            clock_div: std::sync::atomic::AtomicI64::new(1),
            runtime_workers: AtomicU32::new(0),
        })
    }
    pub fn snapshot(&self) -> MemStore {
        self.store.lock().unwrap().snapshot()
    }
    pub fn log_len(&self) -> usize {
        self.log.lock().unwrap().len()
    }
    pub fn log_since(&self, n: usize) -> Vec<OpRecord> {
        self.log.lock().unwrap()[n..].to_vec()
    }
}

#[derive(Debug, Clone, Copy, PartialEq, Eq)]
enum Dead {
    Alive,
    Crashed,
    Hung,
}

pub struct Interceptor {
    pub actor: u32,
    core: Arc<SimCore>,
    plan: FaultPlan,
    count: AtomicU32,
    dead: Mutex<Dead>,
    stop: tokio::sync::Notify,
    pub fired: Mutex<Vec<(u32, Fault)>>,
    pub delays: AtomicU32,
    gated: AtomicBool,
    crash_on_seen: AtomicU32,
    crash_after_at: AtomicU32,
}

impl std::fmt::Debug for Interceptor {
    fn fmt(&self, f: &mut std::fmt::Formatter<'_>) -> std::fmt::Result {
        write!(f, "Interceptor(actor {})", self.actor)
    }
}

impl Interceptor {
    fn die(&self, how: Dead) {
        *self.dead.lock().unwrap() = how;
        self.stop.notify_one();
    }
}

enum Step {
    Return(Result<Reply, TErr>),
    Die(Dead),
}

pub const SIM_EPOCH: i64 = 1_700_000_000;

impl Interceptor {
    fn decide(&self, idx: u32) -> (Option<Fault>, u8) {
        // The decision depends only on (plan, idx), never on timing.
        let mut fault = self.plan.at.get(&idx).copied();
        if fault.is_none() {
            if let Some((seed, per_mille)) = self.plan.fail_each {
                let mut r = Rng::new(rng::mix(&[seed, idx as u64, 0xFA17]));
                if r.below(1000) < per_mille as u64 {
                    fault = Some(Fault::Fail(*r.pick(&EKind::ALL)));
                }
            }
        }
        let mut delayed = 0u8;
        if let Some((seed, per_mille)) = self.plan.delay {
            let mut r = Rng::new(rng::mix(&[seed, idx as u64, 0xDE1A]));
            if r.below(1000) < per_mille as u64 {
                delayed = 1 + r.below(3) as u8;
            }
        }
        (fault, delayed)
    }

    /// The gate: with more than one live actor, wait (blocking this actor's thread, which
    /// *is* the simulated process) until the scheduler releases this actor.
    fn gate(&self, op: &Op) {
        if !self.gated.load(SeqCst) {
            return;
        }
        let sched = &self.core.sched;
        let mut st = sched.state.lock().unwrap();
        if st.enabled {
            st.parked.insert(
                self.actor,
                (store::op_verb(op).to_string(), store::op_path(op).to_string()),
            );
            sched.cv.notify_all();
            while st.released != Some(self.actor) {
                st = sched.cv.wait(st).unwrap();
            }
            st.released = None;
            st.parked.remove(&self.actor);
        }
    }

    fn perform(&self, op: &Op, idx: u32, fault: Option<Fault>, delayed: u8) -> Step {
        let mut store = self.core.store.lock().unwrap();
        let mut log = self.core.log.lock().unwrap();
        let (len, content_hash) = match op {
            Op::Write { content, .. } => (content.len(), rng::hash_bytes(content)),
            _ => (0, 0),
        };
        let mut rec = OpRecord {
            seq: log.len() as u64,
            actor: self.actor,
            idx,
            verb: store::op_verb(op),
            path: store::op_path(op).to_string(),
            len,
            content_hash,
            pre: store.pre(store::op_path(op)),
            res: Res::Ok,
            delayed,
        };
        match fault {
            Some(f @ Fault::CrashBefore) => {
                rec.res = Res::Crash;
                log.push(rec);
                self.fired.lock().unwrap().push((idx, f));
                Step::Die(Dead::Crashed)
            }
            Some(f @ Fault::CrashEmpty) => {
                if let Op::Write { path, mode, .. } = op {
                    store.crash_empty(path, *mode);
                    rec.res = Res::CrashEmpty;
                } else {
                    rec.res = Res::Crash;
                }
                log.push(rec);
                self.fired.lock().unwrap().push((idx, f));
                Step::Die(Dead::Crashed)
            }
            Some(f @ Fault::Fail(kind)) => {
                rec.res = Res::Injected(kind.to_kind());
                log.push(rec);
                self.fired.lock().unwrap().push((idx, f));
                Step::Return(Err(terr(kind.to_kind())))
            }
            None => {
                let r = store.apply(op);
                rec.res = match &r {
                    Ok(_) => Res::Ok,
                    Err(e) => Res::Err(e.kind),
                };
                log.push(rec);
                Step::Return(r)
            }
        }
    }
}

#[async_trait]
impl Backend for Interceptor {
    /// The clock seam (hook H3): the only wall-clock values Conserve ever records are
    /// start_time in BANDHEAD and end_time in BANDTAIL, and it asks its backend for them.
    /// Simulated time is a function of the world's operation count (one tick every
    /// `clock_div` storage operations), so stored bytes - and everything that later depends
    /// on them, such as which byte a seeded bit flip hits - are a function of the scenario.
    fn now_second(&self) -> Option<i64> {
        let seq = self.core.log.lock().unwrap().len() as i64;
        let div = self.core.clock_div.load(SeqCst).max(1);
        Some(self.core.clock_base.load(SeqCst) + seq / div)
    }

    async fn call(&self, op: Op) -> Result<Reply, TErr> {
        if *self.dead.lock().unwrap() != Dead::Alive {
            return std::future::pending().await;
        }
        let idx = self.count.fetch_add(1, SeqCst);
        if idx >= self.core.op_budget.load(SeqCst) {
            self.die(Dead::Hung);
            return std::future::pending().await;
        }
        let (mut fault, delayed) = self.decide(idx);
        if fault.is_none() {
            if let Some((verb, prefix)) = &self.plan.crash_on {
                let path = store::op_path(&op);
                let hit = match prefix.strip_prefix('*') {
                    Some(needle) => path.contains(needle),
                    None => path.starts_with(prefix.as_str()),
                };
                if store::op_verb(&op) == verb && hit {
                    let seen = self.crash_on_seen.fetch_add(1, SeqCst);
                    if seen == self.plan.crash_on_skip {
                        fault = Some(if self.plan.crash_on_empty && verb == "write" { Fault::CrashEmpty } else { Fault::CrashBefore });
                    }
                }
            }
        }
        if fault.is_none() {
            if let Some((verb, prefix)) = &self.plan.crash_after {
                if idx == self.crash_after_at.load(SeqCst) {
                    fault = Some(Fault::CrashBefore);
                } else if self.crash_after_at.load(SeqCst) == u32::MAX {
                    let path = store::op_path(&op);
                    let hit = match prefix.strip_prefix('*') {
                        Some(needle) => path.contains(needle),
                        None => path.starts_with(prefix.as_str()),
                    };
                    if store::op_verb(&op) == verb && hit {
                        self.crash_after_at.store(idx + 1 + self.plan.crash_after_ops, SeqCst);
                    }
                }
            }
        }
        if delayed > 0 {
            self.delays.fetch_add(1, SeqCst);
            for _ in 0..delayed {
                tokio::task::yield_now().await;
            }
            if *self.dead.lock().unwrap() != Dead::Alive {
                return std::future::pending().await;
            }
        }
        self.gate(&op);
        match self.perform(&op, idx, fault, delayed) {
            Step::Return(r) => r,
            Step::Die(how) => {
                self.die(how);
                std::future::pending().await
            }
        }
    }
}

// ---------------------------------------------------------------------------------------
// Running one Conserve call as one actor

#[derive(Debug, Clone, PartialEq, Eq)]
pub struct PanicInfo {
    pub msg: String,
    pub file: String,
    pub line: u32,
}

#[derive(Debug)]
pub enum Outcome<T> {
    Done(T),
    Crashed,
    Panicked(PanicInfo),
    Hung,
}

impl<T> Outcome<T> {
    pub fn kind(&self) -> &'static str {
        match self {
            Outcome::Done(_) => "done",
            Outcome::Crashed => "crashed",
            Outcome::Panicked(_) => "panicked",
            Outcome::Hung => "hung",
        }
    }
    pub fn done(self) -> Option<T> {
        match self {
            Outcome::Done(t) => Some(t),
            _ => None,
        }
    }
    pub fn as_done(&self) -> Option<&T> {
        match self {
            Outcome::Done(t) => Some(t),
            _ => None,
        }
    }
}

pub struct CallResult<T> {
    pub outcome: Outcome<T>,
    /// Storage operations issued by the call (including a crashing one).
    pub ops: u32,
    pub fired: Vec<(u32, Fault)>,
    pub delays: u32,
    /// Range of the world log covered by this call (single-actor calls only).
    pub log_from: usize,
    pub log_to: usize,
}

thread_local! {
    static LAST_PANIC: std::cell::RefCell<Option<PanicInfo>> = const { std::cell::RefCell::new(None) };
    static IN_SIM_CALL: std::cell::Cell<bool> = const { std::cell::Cell::new(false) };
}

/// Install (once) a panic hook that records the first panic of a simulated call instead of
/// printing it. Panics outside simulated calls (harness bugs) are printed as usual.
pub fn install_panic_hook() {
    static ONCE: std::sync::Once = std::sync::Once::new();
    ONCE.call_once(|| {
        let default = std::panic::take_hook();
        std::panic::set_hook(Box::new(move |info| {
            if IN_SIM_CALL.with(|c| c.get()) {
                let msg = if let Some(s) = info.payload().downcast_ref::<&str>() {
                    s.to_string()
                } else if let Some(s) = info.payload().downcast_ref::<String>() {
                    s.clone()
                } else {
                    "<non-string panic>".to_string()
                };
                let (file, line) = info
                    .location()
                    .map(|l| (l.file().to_string(), l.line()))
                    .unwrap_or_default();
                LAST_PANIC.with(|p| {
                    let mut p = p.borrow_mut();
                    if p.is_none() {
                        *p = Some(PanicInfo { msg, file, line });
                    }
                });
                if std::env::var_os("VERIF_DEBUG_PANIC").is_some() {
                    default(info);
                }
            } else {
                default(info);
            }
        }));
    });
}

/// Options of one simulated call.
#[derive(Debug, Clone)]
pub struct CallOpts {
    pub actor: u32,
    pub plan: FaultPlan,
    /// Let tasks the call spawned (the GC-lock cleanup) run before the "process" exits.
    pub drain: bool,
    /// Park before every operation and wait for the scheduler (multi-actor steps).
    pub gated: bool,
}

impl CallOpts {
    pub fn plain() -> CallOpts {
        CallOpts {
            actor: 0,
            plan: FaultPlan::none(),
            drain: true,
            gated: false,
        }
    }
    pub fn with_plan(plan: FaultPlan) -> CallOpts {
        CallOpts {
            plan,
            ..CallOpts::plain()
        }
    }
}

/// Run `f(transport)` to completion, crash, panic or budget exhaustion on *this* thread,
/// on a fresh current-thread tokio runtime (one runtime = one simulated process).
pub fn run_call<T, F, Fut>(core: &Arc<SimCore>, opts: CallOpts, f: F) -> CallResult<T>
where
    F: FnOnce(Transport) -> Fut,
    Fut: Future<Output = T>,
{
    install_panic_hook();
    let ic = Arc::new(Interceptor {
        actor: opts.actor,
        core: core.clone(),
        plan: opts.plan.clone(),
        count: AtomicU32::new(0),
        dead: Mutex::new(Dead::Alive),
        stop: tokio::sync::Notify::new(),
        fired: Mutex::new(Vec::new()),
        delays: AtomicU32::new(0),
        gated: AtomicBool::new(opts.gated),
        crash_on_seen: AtomicU32::new(0),
        crash_after_at: AtomicU32::new(u32::MAX),
    });
    let log_from = core.log_len();
    let transport = Transport::verif_with_backend(ic.clone());
    LAST_PANIC.with(|p| *p.borrow_mut() = None);
    IN_SIM_CALL.with(|c| c.set(true));
    let ic2 = ic.clone();
    let drain = opts.drain;
    let result = std::panic::catch_unwind(std::panic::AssertUnwindSafe(move || {
        let workers = ic2.core.runtime_workers.load(SeqCst);
        let rt = if workers == 0 {
            tokio::runtime::Builder::new_current_thread().enable_all().build().expect("build runtime")
        } else {
            tokio::runtime::Builder::new_multi_thread().worker_threads(workers as usize).enable_all().build().expect("build runtime")
        };
        let r = rt.block_on(async {
            let fut = f(transport);
            tokio::select! {
                biased;
                r = fut => Some(r),
                _ = ic2.stop.notified() => None,
            }
        });
        if drain {
            rt.block_on(async {
                for _ in 0..64 {
                    tokio::task::yield_now().await;
                }
            });
        }
        drop(rt);
        r
    }));
    IN_SIM_CALL.with(|c| c.set(false));
    let dead = *ic.dead.lock().unwrap();
    let outcome = match result {
        Ok(Some(v)) => Outcome::Done(v),
        Ok(None) => match dead {
            Dead::Hung => Outcome::Hung,
            _ => Outcome::Crashed,
        },
        Err(_) => {
            let info = LAST_PANIC.with(|p| p.borrow_mut().take()).unwrap_or(PanicInfo {
                msg: "<unknown>".into(),
                file: String::new(),
                line: 0,
            });
            Outcome::Panicked(info)
        }
    };
    // After the call nothing of this actor may touch the store any more.
    *ic.dead.lock().unwrap() = Dead::Crashed;
    CallResult {
        outcome,
        ops: ic.count.load(SeqCst),
        fired: ic.fired.lock().unwrap().clone(),
        delays: ic.delays.load(SeqCst),
        log_from,
        log_to: core.log_len(),
    }
}

// ---------------------------------------------------------------------------------------
// Several simulated invocations racing through storage, one operation at a time

#[derive(Debug, Clone, PartialEq, serde::Serialize, serde::Deserialize)]
pub enum Schedule {
    /// The actor to release at each decision point (falls back to the lowest parked id).
    Explicit(Vec<u32>),
    /// Seeded choice, biased to switch between a check and the act it guards.
    Random(u64),
    /// `first` runs points[0] operations, the other runs points[1], `first` runs points[2] ...;
    /// the segment after the last listed one runs to that actor's end, then the other finishes.
    /// So `[i]` is "first runs i operations, the other runs to its end, first finishes", and
    /// `[]` is the sequential execution first-then-other.
    Preempt { first: u32, points: Vec<u32> },
}

fn is_check_op(verb: &str, path: &str) -> bool {
    (verb == "stat" && (path == "GC_LOCK" || path.ends_with("BANDTAIL"))) || (verb == "list" && path.is_empty())
}

fn is_act_op(verb: &str, path: &str) -> bool {
    matches!(verb, "rm" | "rmtree")
        || (verb == "write" && (path.ends_with("BANDHEAD") || path == "GC_LOCK" || path.ends_with("BANDTAIL")))
        || (verb == "mkdir" && path.starts_with('b') && !path.contains('/'))
}

pub type ActorFn<T> = Box<dyn FnOnce(Transport) -> std::pin::Pin<Box<dyn Future<Output = T>>> + Send>;

pub struct RaceResult<T> {
    pub results: Vec<CallResult<T>>,
    /// The actor released at each decision point: an `Explicit` schedule that replays the run.
    pub trace: Vec<u32>,
    pub preemptions: u32,
}

/// Run the actors concurrently as separate simulated processes. Exactly one of them is ever
/// unparked; `schedule` decides which.
pub fn run_concurrent<T: Send + 'static>(
    core: &Arc<SimCore>,
    actors: Vec<(CallOpts, ActorFn<T>)>,
    schedule: &Schedule,
) -> RaceResult<T> {
    let n = actors.len();
    {
        let mut st = core.sched.state.lock().unwrap();
        *st = SchedState::default();
        st.enabled = true;
    }
    let ids: Vec<u32> = actors.iter().map(|(o, _)| o.actor).collect();
    let mut handles = Vec::new();
    for (mut opts, f) in actors {
        opts.gated = true;
        let core2 = core.clone();
        handles.push(std::thread::spawn(move || {
            let actor = opts.actor;
            let r = run_call(&core2, opts, f);
            let mut st = core2.sched.state.lock().unwrap();
            st.finished.push(actor);
            core2.sched.cv.notify_all();
            r
        }));
    }
    let mut trace: Vec<u32> = Vec::new();
    let mut preemptions = 0u32;
    let mut rng = match schedule {
        Schedule::Random(seed) => Some(Rng::new(*seed)),
        _ => None,
    };
    let mut last: Option<u32> = None;
    let mut last_was_check = false;
    // Preempt bookkeeping
    let (mut seg, mut seg_left, mut seg_actor) = (0usize, 0u32, 0u32);
    if let Schedule::Preempt { first, points } = schedule {
        seg_actor = *first;
        seg_left = points.first().copied().unwrap_or(u32::MAX);
    }
    loop {
        let mut st = core.sched.state.lock().unwrap();
        while st.released.is_some() || st.parked.len() + st.finished.len() < n {
            st = core.sched.cv.wait(st).unwrap();
        }
        if st.finished.len() == n {
            break;
        }
        let parked: Vec<u32> = st.parked.keys().copied().collect();
        let lowest = parked[0];
        let pick = match schedule {
            Schedule::Explicit(list) => match list.get(trace.len()) {
                Some(a) if parked.contains(a) => *a,
                _ => lowest,
            },
            Schedule::Random(_) => {
                let r = rng.as_mut().unwrap();
                match last {
                    Some(l) if parked.contains(&l) && parked.len() > 1 => {
                        let (verb, path) = &st.parked[&l];
                        let hot = last_was_check || is_act_op(verb, path);
                        let switch = if hot { r.chance(3, 5) } else { r.chance(1, 8) };
                        if switch {
                            let others: Vec<u32> = parked.iter().copied().filter(|a| *a != l).collect();
                            *r.pick(&others)
                        } else {
                            l
                        }
                    }
                    _ => *r.pick(&parked),
                }
            }
            Schedule::Preempt { first, points } => {
                let other = ids.iter().copied().find(|a| a != first).unwrap_or(*first);
                loop {
                    if seg_left == 0 || !parked.contains(&seg_actor) {
                        // next segment: the actors alternate; a segment without an explicit
                        // length runs to that actor's end
                        seg += 1;
                        seg_actor = if seg % 2 == 0 { *first } else { other };
                        seg_left = points.get(seg).copied().unwrap_or(u32::MAX);
                        if !parked.contains(&seg_actor) {
                            // that actor has finished: whoever is left takes the rest
                            seg_actor = lowest;
                            seg_left = u32::MAX;
                        }
                        continue;
                    }
                    seg_left -= 1;
                    break seg_actor;
                }
            }
        };
        if let Some(l) = last {
            if l != pick && parked.contains(&l) {
                preemptions += 1;
            }
        }
        let (verb, path) = &st.parked[&pick];
        last_was_check = is_check_op(verb, path);
        last = Some(pick);
        trace.push(pick);
        st.released = Some(pick);
        core.sched.cv.notify_all();
    }
    let results: Vec<CallResult<T>> = handles.into_iter().map(|h| h.join().expect("actor thread")).collect();
    core.sched.state.lock().unwrap().enabled = false;
    RaceResult {
        results,
        trace,
        preemptions,
    }
}
