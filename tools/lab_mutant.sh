#!/bin/sh
# usage: tools/lab_mutant.sh <patch-file> <check-id> [more check ids]
# Like tools/mutant.sh but never touches /repo: a scratch worktree of /repo and a scratch
# copy of the simulator under $VERIF_LAB (default /var/tmp/verif-lab) are used instead, so it
# can run while other checks are using /repo. Remove the lab with tools/lab_mutant.sh --clean.
lab="${VERIF_LAB:-/var/tmp/verif-lab}"
here="$(cd "$(dirname "$0")/.." && pwd)"
if [ "$1" = "--clean" ]; then
    git -C /repo worktree remove --force "$lab/repo" 2>/dev/null; git -C /repo worktree prune; rm -rf "$lab"; exit 0
fi
patch="$1"; shift
if [ ! -d "$lab/repo" ]; then
    mkdir -p "$lab" && git -C /repo worktree add -q --detach "$lab/repo" HEAD || exit 2
fi
git -C "$lab/repo" checkout -q --detach "$(git -C /repo rev-parse HEAD)" && git -C "$lab/repo" checkout -q -- . || exit 2
mkdir -p "$lab/sim" "$lab/vdir"
rsync -a --delete --exclude target "$here/sim/" "$lab/sim/"
[ -d "$lab/sim/target" ] || cp -r "$here/sim/target" "$lab/sim/target" 2>/dev/null
sed -i "s|path = \"/repo\"|path = \"$lab/repo\"|" "$lab/sim/Cargo.toml"
cp "$here/known_findings.json" "$here/MANIFEST.json" "$lab/vdir/" 2>/dev/null; mkdir -p "$lab/vdir/sim"
if ! git -C "$lab/repo" apply "$patch"; then echo "patch does not apply: $patch" >&2; exit 2; fi
if ! (cd "$lab/sim" && CARGO_NET_OFFLINE=true cargo build --release --offline >"$lab/build.log" 2>&1); then
    echo "$(basename "$(dirname "$patch")")/$(basename "$patch") BUILD FAILED"; tail -5 "$lab/build.log"; git -C "$lab/repo" checkout -q -- .; exit 2
fi
for c in "$@"; do
    out="$(VERIF_DIR="$lab/vdir" "$lab/sim/target/release/simcheck" "$c" quick 2>&1)"; rc=$?
    echo "$(basename "$(dirname "$patch")")/$(basename "$patch") $c exit=$rc $(echo "$out" | grep -m1 -E 'violation|harness error' | cut -c1-220)"
done
git -C "$lab/repo" checkout -q -- .
