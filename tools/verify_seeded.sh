#!/bin/sh
# usage: tools/verify_seeded.sh <worktree> <out-log>
# Confirms an independently seeded change: (1) demo fails with the change, (2) demo passes
# without it, (3) the project's suite with the change is 212 passed + the 1 known failure.
wt="$1"; log="$2"
cd "$wt" || exit 2
export CARGO_TARGET_DIR="$wt/target" CARGO_NET_OFFLINE=true
{
echo "== worktree $wt"; git status --short | head
cp OUT/seeded_demo.rs tests/seeded_demo.rs 2>/dev/null
echo "== demo WITH change"; cargo test --offline --test seeded_demo 2>&1 | grep -E "^test |test result|error\[" | head -20
git stash push -q -- src; echo "== demo WITHOUT change (stashed)"; cargo test --offline --test seeded_demo 2>&1 | grep -E "^test |test result|error\[" | head -20
git stash pop -q
mv tests/seeded_demo.rs /tmp/seeded_demo_aside_$$.rs
echo "== suite WITH change"; cargo nextest run --workspace --no-fail-fast --test-threads 8 --offline 2>&1 | grep -E "Summary|FAIL \[" | head
mv /tmp/seeded_demo_aside_$$.rs tests/seeded_demo.rs
} > "$log" 2>&1
