#!/bin/sh
# usage: tools/seed_collect.sh <Cxx> <round> [check]   - copy a seeding agent's OUT into
# seeded/<Cxx>-<round>/ and try the patch against the targeted check in the scratch lab.
c="$1"; n="$2"; chk="${3:-$1}"
here="$(cd "$(dirname "$0")/.." && pwd)"
wt="/tmp/seed-$c-r$n"; d="$here/seeded/$c-$n"
mkdir -p "$d"
cp "$wt/OUT/patch.diff" "$d/patch.diff" || exit 2
cp "$wt/OUT/seeded_demo.rs" "$d/" 2>/dev/null
cp "$wt/OUT/README.md" "$d/agent_README.md" 2>/dev/null
git -C /repo apply --check "$d/patch.diff" || echo "NOAPPLY $c-$n"
VERIF_LAB="${VERIF_LAB:-/var/tmp/verif-lab2}" "$here/tools/lab_mutant.sh" "$d/patch.diff" "$chk" 2>&1 | cut -c1-400 | tail -1
