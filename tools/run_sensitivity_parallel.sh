#!/bin/sh
# usage: tools/run_sensitivity_parallel.sh [shards]   (default 3)
# Same job as tools/run_all_sensitivity.sh - every mutants/*.patch and seeded/*/patch.diff
# against the check that decides it, in scratch labs that never touch /repo - split over
# several labs running side by side. Writes mutants/RESULTS.txt and seeded/RESULTS.txt.
here="$(cd "$(dirname "$0")/.." && pwd)"
n="${1:-3}"
rev="$(git -C /repo rev-parse --short HEAD)"
work="$(mktemp -d /var/tmp/sens.XXXXXX)"
: > "$work/all"
for p in "$here"/mutants/*.patch; do
    id="$(basename "$p" | cut -c1-3 | tr c C)"
    echo "M $p $id" >> "$work/all"
done
for d in "$here"/seeded/*/; do
    [ -f "$d/patch.diff" ] || continue
    id="$(basename "$d" | cut -c1-3)"
    alt="$(python3 -c "import json,sys; print(json.load(open(sys.argv[1])).get('detecting_check',''))" "$d/meta.json" 2>/dev/null)"
    [ -n "$alt" ] && id="$alt"
    echo "S ${d}patch.diff $id" >> "$work/all"
done
i=0
while [ $i -lt "$n" ]; do
    ( awk -v n="$n" -v i="$i" 'NR % n == i' "$work/all" | while read kind p id; do
          out="$(VERIF_LAB="/var/tmp/verif-lab-s$i" "$here/tools/lab_mutant.sh" "$p" "$id" | cut -c1-240)"
          echo "$kind $out"
      done > "$work/out.$i" 2>&1
      VERIF_LAB="/var/tmp/verif-lab-s$i" "$here/tools/lab_mutant.sh" --clean ) &
    i=$((i+1))
done
wait
{ echo "# own mutants against /repo $rev, $(date -u +%Y-%m-%dT%H:%MZ); exit=1: detected"; cat "$work"/out.* | grep '^M ' | cut -c3- | sort; } > "$here/mutants/RESULTS.txt"
{ echo "# independently seeded changes against /repo $rev, $(date -u +%Y-%m-%dT%H:%MZ); exit=1: detected (the check named is the one recorded as detecting_check in meta.json)"; cat "$work"/out.* | grep '^S ' | cut -c3- | sort; } > "$here/seeded/RESULTS.txt"
rm -rf "$work"
grep -c "exit=1" "$here/mutants/RESULTS.txt" "$here/seeded/RESULTS.txt"
grep -v "exit=1" "$here/mutants/RESULTS.txt" "$here/seeded/RESULTS.txt" | grep -v "^[^:]*:#"
