#!/bin/sh
# Runs every mutants/<cNN>_*.patch against the check named by its prefix; prints a table.
here="$(cd "$(dirname "$0")/.." && pwd)"
for p in "$here"/mutants/*.patch; do
    id="$(basename "$p" | cut -c1-3 | tr c C)"
    "$here/tools/mutant.sh" "$p" "$id"
done
# leave the simulator built against the unchanged tree
"$here/bin/check" list >/dev/null 2>&1
