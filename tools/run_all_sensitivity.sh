#!/bin/sh
# Runs every mutants/*.patch and every seeded/*/patch.diff against the check named by its
# prefix, in the scratch lab (never touches /repo), and writes mutants/RESULTS.txt and
# seeded/RESULTS.txt. exit=1 means the breakage was detected.
here="$(cd "$(dirname "$0")/.." && pwd)"
rev="$(git -C /repo rev-parse --short HEAD)"
{
echo "# own mutants against /repo $rev, $(date -u +%Y-%m-%dT%H:%MZ); exit=1: detected"
for p in "$here"/mutants/*.patch; do
    id="$(basename "$p" | cut -c1-3 | tr c C)"
    "$here/tools/lab_mutant.sh" "$p" "$id" | cut -c1-240
done
} > "$here/mutants/RESULTS.txt.tmp" 2>&1 && mv "$here/mutants/RESULTS.txt.tmp" "$here/mutants/RESULTS.txt"
{
echo "# independently seeded changes against /repo $rev, $(date -u +%Y-%m-%dT%H:%MZ); exit=1: detected"
for d in "$here"/seeded/*/; do
    [ -f "$d/patch.diff" ] || continue
    id="$(basename "$d" | cut -c1-3)"
    # a few changes are detected by another check than the one they were written for
    alt="$(python3 -c "import json,sys; print(json.load(open(sys.argv[1])).get('detecting_check',''))" "$d/meta.json" 2>/dev/null)"
    [ -n "$alt" ] && id="$alt"
    "$here/tools/lab_mutant.sh" "$d/patch.diff" "$id" | cut -c1-240
done
} > "$here/seeded/RESULTS.txt.tmp" 2>&1 && mv "$here/seeded/RESULTS.txt.tmp" "$here/seeded/RESULTS.txt"
