#!/bin/sh
# Determinism proof: every check's quick batch (or VERIF_RUNS) is executed in separate
# processes with 16, 5 and 1 worker threads and two different seeds each twice; the
# order-independent digest of ALL operation logs, the counts and the verdicts must agree.
here="$(cd "$(dirname "$0")/.." && pwd)"
bin="$here/sim/target/release/simcheck"
"$here/bin/check" list >/dev/null || exit 2
fail=0
for c in ${SELFTEST_CHECKS:-C01 C02 C03 C04 C05 C06 C07 C08 C09 C10 C11 C12 C13 C14 C15 C16 C17 C18}; do
  for seed in 1 7; do
    ref=""; bad=0
    for w in 16 5 16 2; do
      out="$(VERIF_SEED=$seed VERIF_DIR=/var/tmp/selftest-scratch "$bin" "$c" --runs "${VERIF_RUNS:-40}" --workers "$w" 2>&1 | grep -E 'determinism digest|^  [0-9]+ runs' | sed -E 's/, [0-9.]+s$//' | tr '\n' ' ')"
      if [ -z "$ref" ]; then ref="$out"; elif [ "$ref" != "$out" ]; then echo "NONDETERMINISTIC $c seed=$seed workers=$w"; echo "  ref: $ref"; echo "  got: $out"; fail=1; bad=1; fi
    done
    [ $bad = 0 ] && echo "$c seed=$seed identical across 4 processes (workers 16,5,16,2): $(echo "$ref" | grep -o 'oplog_xor=[0-9a-f]*')"
  done
done
rm -rf /var/tmp/selftest-scratch
exit $fail
