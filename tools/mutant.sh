#!/bin/sh
# usage: tools/mutant.sh <patch-file> <check-id> [more check ids]
# Applies a deliberate breakage to /repo, runs the named quick checks, reverts /repo.
# Prints one line per check: "<patch> <check> exit=<n>" (1 = detected).
patch="$1"; shift
here="$(cd "$(dirname "$0")/.." && pwd)"
if ! git -C /repo diff --quiet; then echo "refusing: /repo has uncommitted changes" >&2; exit 2; fi
if ! git -C /repo apply "$patch"; then echo "patch does not apply: $patch" >&2; exit 2; fi
for c in "$@"; do
    out="$("$here/bin/check" "$c" quick 2>&1)"; rc=$?
    echo "$(basename "$patch") $c exit=$rc $(echo "$out" | grep -m1 -E 'violation|harness error' | cut -c1-200)"
done
git -C /repo checkout -- . 
