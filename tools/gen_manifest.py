#!/usr/bin/env python3
"""Regenerates /verif/MANIFEST.json from the table below (run after adding a check)."""
import json, subprocess, os

HERE = os.path.dirname(os.path.dirname(os.path.abspath(__file__)))
hooks = subprocess.run(["git", "-C", "/repo", "log", "--format=%H %s"], capture_output=True, text=True).stdout.splitlines()
hook_commits = [l.split()[0] for l in hooks if "verif hook" in l]

TRUSTED = ("Trusted base: the in-memory storage stub has local-filesystem semantics (DESIGN.md 1); the source tree and restore "
           "target are real tmpfs directories; snap/serde_json/blake2-rfc are shared with Conserve; a clean batch is evidence, not proof.")

CHECKS = {
 "C01": ("exploration", "6 C01",
         "Seeded simulation, fault-free configuration: generated trees x option sets x listing-order/delay flavours, real backup and restore through the simulated storage seam, compared with the harness's own lstat walk.",
         "deterministic simulation (seeded workload, zero-fault configuration) + reference-model comparison"),
 "C02": ("exploration", "6 C02",
         "Seeded histories (edits, backups with any options, backups killed before a random storage operation and later resumed, deletes, gc); after every archive-changing step every completed version and 'latest' are restored and compared with the reference snapshot model.",
         "deterministic simulation of operation histories with crash injection + archive reference model"),
 "C13": ("exploration", "6 C13",
         "Same seeded histories (plus the crash variant that leaves a zero-length file), decoded after every step by an independent reader of format 0.6 and checked against doc/format.md.",
         "deterministic simulation of histories with crash injection + independent format decoder as oracle"),
}

checks = []
for cid, (level, ref, text, technique) in sorted(CHECKS.items()):
    checks.append({
        "property_id": cid,
        "quick_cmd": f"bin/check {cid} quick",
        "thorough_cmd": f"bin/check {cid} thorough",
        "evidence_file": f"evidence/{cid}.json",
        "replay_cmd_template": "bin/check replay {path}",
        "engine": "simcheck",
        "level_claimed": {"category": level, "text": text, "design_ref": f"DESIGN.md section {ref}"},
        "level_note": TRUSTED,
        "technique": technique,
    })

props = [json.loads(l)["id"] for l in open(os.path.join(HERE, "properties.jsonl"))]
na = [{"property_id": p, "reason": "check not built yet in this round (planned, see DESIGN.md section 6); not a statement that the technique does not apply"}
      for p in props if p not in CHECKS]

manifest = {
 "version": 1,
 "setup_cmd": "cd sim && CARGO_NET_OFFLINE=true cargo build --release --offline",
 "hooks": {
  "guard": "cargo feature verif_hooks (off by default)",
  "enable": "the simulator depends on /repo by path with default-features = false, features = [\"verif_hooks\"]",
  "baseline_off_cmd": "cd /repo && cargo nextest run --workspace --no-fail-fast --test-threads 8 --offline",
  "source_commits": hook_commits,
  "add_only": True,
 },
 "engines": [{"name": "simcheck", "path": "sim", "serves_properties": sorted(CHECKS),
              "kind_free_text": "single-process deterministic simulator: real Conserve code above the Transport seam, in-memory storage, seeded fault plans, crash by cancellation, gated multi-actor scheduler, reference models and independent format decoder as oracles"}],
 "checks": checks,
 "notes": "VERIF_SEED (default 1) selects the batch; VERIF_TIER overrides the tier; VERIF_RUNS/VERIF_WORKERS scale a run. Exit 0 held, 1 VIOLATION, 2 harness error. Replay files are written under replays/.",
 "not_applicable": na,
}
json.dump(manifest, open(os.path.join(HERE, "MANIFEST.json"), "w"), indent=1)
print("wrote MANIFEST.json with", len(checks), "checks")
