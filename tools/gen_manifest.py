#!/usr/bin/env python3
"""Regenerates /verif/MANIFEST.json from the table below (run after adding a check)."""
import json, subprocess, os

HERE = os.path.dirname(os.path.dirname(os.path.abspath(__file__)))
hooks = subprocess.run(["git", "-C", "/repo", "log", "--format=%H %s"], capture_output=True, text=True).stdout.splitlines()
hook_commits = [l.split()[0] for l in hooks if "verif hook" in l]

TRUSTED = ("Trusted base: the in-memory storage stub has local-filesystem semantics (DESIGN.md 1); the source tree and restore "
           "target are real tmpfs directories; snap/serde_json/blake2-rfc are shared with Conserve; a clean batch is evidence, not proof.")

CHECKS = {
 "C01": ("exploration", "6 C01",
         "Seeded simulation, fault-free configuration: generated trees x option sets x listing-order/delay flavours, real backup and restore through the simulated storage seam, compared with the harness's own lstat walk.",
         "deterministic simulation (seeded workload, zero-fault configuration) + reference-model comparison"),
 "C02": ("exploration", "6 C02",
         "Seeded histories (edits, backups with any options, backups killed before a random storage operation and later resumed, deletes, gc); after every archive-changing step every completed version and 'latest' are restored and compared with the reference snapshot model.",
         "deterministic simulation of operation histories with crash injection + archive reference model"),
 "C03": ("fault_enumeration", "6 C03",
         "Crash-point enumeration in simulation: for each sampled scenario the final backup is killed before EVERY storage operation of its trace (and, for writes, leaving a zero-length file); each crashed world is checked for openability, exact restore of earlier versions, no dangling reference, stitched listing/restore of the interrupted version against the reference stitch, and a completing follow-up backup.",
         "deterministic simulation with exhaustive crash-point injection per scenario (crash = cancellation, only the simulated store survives)"),
 "C04": ("fault_enumeration", "6 C04",
         "Storage-error enumeration in simulation: every operation of the final backup's trace fails once with each of four error kinds, plus seeded multi-fault runs; oracles from an independent decoder (every recorded entry reassembles to its source bytes, earlier files untouched, clean success implies exact restore, no panic).",
         "deterministic simulation with exhaustive single-fault injection per scenario + seeded multi-fault sequences"),
 "C05": ("fault_enumeration", "6 C05",
         "Delete/gc at the end of seeded histories (some with tails written the pre-0.6.4 way and zero-length leftovers of killed writes): fault-free oracle (refusal exactly when predicted, exact band set, reference scan, dry run identical) and, for real deletes, a crash before EVERY operation and every read/list/stat failing once; every kept complete version must still restore exactly.",
         "deterministic simulation with exhaustive crash-point and read-fault injection per scenario"),
 "C06": ("exploration", "6 C06",
         "Two simulated Conserve processes (backup and delete/gc) racing through storage one operation at a time under a scheduler the simulator owns: all single-preemption schedules in both orders, sampled three-preemption schedules (thorough) and seeded biased-random schedules, over directed archive states (basis being deleted, garbage whose content reappears) and random histories.",
         "deterministic simulation of two racing processes with a controlled scheduler: systematic preemption-bounded schedules + seeded random schedules"),
 "C07": ("exploration", "6 C07",
         "Seeded histories (with killed and resumed backups, zero-length leftovers, deletes, gc) checked step by step against the operation log and a byte-for-byte before/after store image, after every step a restore, a quick validation and a listing must perform no mutating storage operation; and two backups of different sources racing as two simulated processes under systematic single-preemption and seeded random schedules (every other race within one simulated second); one third of the runs execute the real transport/local.rs on tmpfs behind the interceptor.",
         "deterministic simulation (histories with crash injection; two racing processes under a controlled scheduler) with an operation-log oracle, on both the stub store and the real local transport"),
 "C08": ("exploration", "6 C08",
         "Archive states from real simulated histories with many killed backups and from state injection (bands written directly in format 0.6: complete/incomplete/head-less/hunk-less/absent, every hunk split, missing trailing hunks); every (band, subtree, exclusion) listing is compared with reference-stitch o ancestor-filter o exclusion over the independent decoder, checked for strict order and for termination within the operation budget.",
         "deterministic simulation (crash-injected histories + seeded state injection) with an executable reference model of the stitching rule"),
 "C09": ("fault_enumeration", "6 C09",
         "Healthy side: fault-free simulated histories (incl. interrupted-with-header backups, deletes, gc) validated after every step. Damage side: for the final store EVERY file x {delete (not for band tails: absence of a tail is the legal incomplete state), truncate 0, truncate half, garbage} + seeded bit flips in blocks; every version is restored before and after, and only damage that changes a restore obliges validate to report.",
         "deterministic simulation with exhaustive single-file storage-rot injection per scenario; differential restore oracle decides when validate must speak"),
 "C10": ("fault_enumeration", "6 C10",
         "For the final store of a simulated history EVERY file except the header x {delete, truncate 0, truncate half, garbage} + bit flips in every file; versions/list/restore of every band, validate twice, a new backup and its restore are run on each damaged world: no panic or hang, untouched files restore exactly, broken files are reported, backup after missing-file damage completes and restores.",
         "deterministic simulation with exhaustive single-file storage-rot injection per scenario; decoder-based containment oracle, panic and operation-budget detection"),
 "C14": ("fault_enumeration", "6 C14",
         "Operation-log oracles in simulation: an unchanged tree backed up again writes no block and records identical addresses; over histories no block path is written while it holds content; and for EVERY crash point of a backup the resumed backup rewrites nothing and reuses the interrupted run's recorded entries.",
         "deterministic simulation with exhaustive crash-point injection per scenario + operation-log oracle"),
 "C11": ("exploration", "6 C11",
         "Stream half as a simulation invariant: Conserve's source walk under the real readdir order, every decoded hunk sequence and every listing (under shuffled storage listings and delays) strictly increasing under the reference order and equal to the tree; comparator half sampled over the simulated worlds' path populations (pairs, triples, validity of request strings). The exhaustive depth<=4 enumeration named in the quantifier is deliberately not built (pure function: not a simulation target).",
         "deterministic simulation (zero-fault configuration, environment order nondeterminism controlled) + reference order; comparator laws sampled, not enumerated"),
 "C12": ("exploration", "6 C12",
         "Trees biased to multi-byte names and extension siblings, one or two versions (some stitched after a killed backup); every subtree listing is compared with the reference ancestor filter of the full listing and every directory's subtree restore with the corresponding sub-map of the full restore.",
         "deterministic simulation (seeded workload, crash-injected second version) + refinement against a reference ancestor test"),
 "C13": ("exploration", "6 C13",
         "Same seeded histories (plus the crash variant that leaves a zero-length file), decoded after every step by an independent reader of format 0.6 and checked against doc/format.md.",
         "deterministic simulation of histories with crash injection + independent format decoder as oracle"),
}
CHECKS.update({
 "C15": ("exploration", "6 C15",
         "Differential check in simulation: entries stored by backup(exclude=E) (independent decoder) = listing of a full backup with E = paths restored from the full backup with E = a reference glob rule, over generated trees and pattern sets drawn from the tree's own names.",
         "deterministic simulation (seeded workload, zero-fault configuration) + differential and reference-rule oracle"),
 "C16": ("exploration", "6 C16",
         "Sandboxed restores in simulation: trees whose symlinks aim at sentinel files/directories beside the destination (relative, absolute, '..'), restored with drawn subtree/exclusion selections into absent, empty and pre-populated destinations; a recursive lstat+content snapshot of everything outside the destination must not change, and a non-empty destination must be refused untouched.",
         "deterministic simulation (seeded workload) + sandbox snapshot oracle around the real restore target"),
 "C17": ("exploration", "6 C17",
         "Each seeded history (with killed backups, deletes, gc) is executed six times into fresh simulated stores: sorted / shuffled / reversed listings with no delays / two delay seeds that reorder sibling-task completion; the simulated process exiting before detached tasks run; the simulated clock 70 years ahead; and (files only) a real 4-worker tokio runtime. Stores must be byte-identical modulo the two timestamps and, for the simulator-scheduled flavours, the mutating operation sequences equal.",
         "deterministic simulation replayed under varied simulator-controlled schedules/listing orders; byte-level differential oracle"),
 "C18": ("exploration", "6 C18",
         "Tree, backup, generated mutation set, then diff (with and without unchanged) and the next backup's change callback are compared path by path with a model diff of the harness's two snapshots; the untouched tree must report no change.",
         "deterministic simulation (seeded workload, zero-fault configuration) + reference-model diff"),
})

checks = []
for cid, (level, ref, text, technique) in sorted(CHECKS.items()):
    checks.append({
        "property_id": cid,
        "quick_cmd": f"bin/check {cid} quick",
        "thorough_cmd": f"bin/check {cid} thorough",
        "evidence_file": f"evidence/{cid}.json",
        "replay_cmd_template": "bin/check replay {path}",
        "engine": "simcheck",
        "level_claimed": {"category": level, "text": text, "design_ref": f"DESIGN.md section {ref}"},
        "level_note": TRUSTED,
        "technique": technique,
    })

props = [json.loads(l)["id"] for l in open(os.path.join(HERE, "properties.jsonl"))]
na = [{"property_id": p, "reason": "check not built yet in this round (planned, see DESIGN.md section 6); not a statement that the technique does not apply"}
      for p in props if p not in CHECKS]

manifest = {
 "version": 1,
 "setup_cmd": "cd sim && CARGO_NET_OFFLINE=true cargo build --release --offline",
 "hooks": {
  "guard": "cargo feature verif_hooks (off by default)",
  "enable": "the simulator depends on /repo by path with default-features = false, features = [\"verif_hooks\"]",
  "baseline_off_cmd": "cd /repo && cargo nextest run --workspace --no-fail-fast --test-threads 8 --offline",
  "source_commits": hook_commits,
  "add_only": True,
 },
 "engines": [{"name": "simcheck", "path": "sim", "serves_properties": sorted(CHECKS),
              "kind_free_text": "single-process deterministic simulator: real Conserve code above the Transport seam, in-memory storage, seeded fault plans, crash by cancellation, gated multi-actor scheduler, reference models and independent format decoder as oracles"}],
 "checks": checks,
 "notes": "VERIF_SEED (default 1) selects the batch; VERIF_TIER overrides the tier; VERIF_RUNS/VERIF_WORKERS scale a run. Exit 0 held, 1 VIOLATION, 2 harness error. Replay files are written under replays/.",
 "not_applicable": na,
}
json.dump(manifest, open(os.path.join(HERE, "MANIFEST.json"), "w"), indent=1)
print("wrote MANIFEST.json with", len(checks), "checks")
