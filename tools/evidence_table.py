#!/usr/bin/env python3
"""Print a markdown table of the latest evidence of each tier (evidence_by_tier/)."""
import json, glob, os
here = os.path.dirname(os.path.dirname(os.path.abspath(__file__)))
print("| check | tier | runs | evaluations | distinct non-trivial | storage ops (logical time) | faults fired | wall s | runs/h |")
print("|---|---|---|---|---|---|---|---|---|")
for tier in ("quick", "thorough"):
    for f in sorted(glob.glob(os.path.join(here, "evidence_by_tier", f"*.{tier}.json"))):
        e = json.load(open(f)); c = e["coverage"]
        faults = sum(c.get("faults_fired", {}).values())
        print(f"| {e['property_id']} | {tier} | {c['runs']} | {c['evaluations']} | {c['distinct_nontrivial']} | {c['logical_time_storage_ops']} | {faults} | {e['wall_s']:.0f} | {c['runs_per_hour']} |")
