#!/bin/sh
# usage: tools/rerun_sensitivity_subset.sh <pattern>...   e.g. 'C17-' 'c17_' '-7/'
# Re-runs the patches whose path matches any pattern (scratch lab, never /repo) and replaces
# or adds their lines in mutants/RESULTS.txt and seeded/RESULTS.txt.
here="$(cd "$(dirname "$0")/.." && pwd)"
export VERIF_LAB="${VERIF_LAB:-/var/tmp/verif-lab2}"
for pat in "$@"; do
  for p in "$here"/mutants/*.patch "$here"/seeded/*/patch.diff; do
    case "$p" in *"$pat"*) ;; *) continue;; esac
    case "$p" in
      */mutants/*) id="$(basename "$p" | cut -c1-3 | tr c C)"; res="$here/mutants/RESULTS.txt"; key="mutants/$(basename "$p")";;
      *) d="$(dirname "$p")"; id="$(basename "$d" | cut -c1-3)"; alt="$(python3 -c "import json,sys; print(json.load(open(sys.argv[1])).get('detecting_check',''))" "$d/meta.json" 2>/dev/null)"; [ -n "$alt" ] && id="$alt"; res="$here/seeded/RESULTS.txt"; key="$(basename "$d")/patch.diff";;
    esac
    line="$("$here/tools/lab_mutant.sh" "$p" "$id" | cut -c1-240)"
    echo "$line"
    grep -v "^$key " "$res" > "$res.tmp"; echo "$line" >> "$res.tmp"
    { head -1 "$res.tmp"; tail -n +2 "$res.tmp" | sort; } > "$res"; rm -f "$res.tmp"
  done
done
